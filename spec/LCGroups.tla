------------------------------- MODULE LCGroups -------------------------------
(***************************************************************************)
(* Classes are DEFINED as connected components: of graphs under local      *)
(* complementation (graph level) and of stabilizer groups under            *)
(* single-qubit H and S (group level; H and S generate the six local       *)
(* classes).  Reps is a set of graph ids claimed to be a system of         *)
(* distinct representatives.  TLC establishes:                             *)
(*   RepsDistinct   the representatives have pairwise different keys       *)
(*   KeyPreserved   every transition preserves the class key               *)
(*   and the number of distinct states: if it equals 2^(n(n-1)/2) (graph   *)
(*   level) resp. prod (2^k+1) (group level) then every graph / every      *)
(*   stabilizer group lies in the component of exactly one representative, *)
(*   so components = key classes and their number is |Reps|.              *)
(***************************************************************************)
EXTENDS Classes, TLC, Json
CONSTANTS N, Reps
Q == 0..(N - 1)
RepsDistinct == Cardinality({KeyOfGraph(N, g) : g \in Reps}) = Cardinality(Reps)
ASSUME RepsDistinct

(* ---------------- group level ---------------- *)
VARIABLES stab, srep          \* a sign-free tableau of the group, and the representative it started from
svars == <<stab, srep>>
SInit == \E g \in Reps : stab = GraphGens(N, g) /\ srep = g
LocalH(q) == stab' = [i \in DOMAIN stab |-> Body(GH(q, stab[i]))] /\ srep' = srep
LocalS(q) == stab' = [i \in DOMAIN stab |-> Body(GS(q, stab[i]))] /\ srep' = srep
SNext == \E q \in Q : LocalH(q) \/ LocalS(q)
SSpec == SInit /\ [][SNext]_svars
SView == <<Span(stab), srep>>
SKeyInv == KeyOfGens(stab) = KeyOfGraph(N, srep)
STypeOK == ValidStabilizer(N, stab)
SDump == PrintT(ToJson([k |-> "S", tab |-> stab, rep |-> srep]))
=============================================================================
