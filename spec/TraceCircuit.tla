----------------------------- MODULE TraceCircuit -----------------------------
(***************************************************************************)
(* Trace validation for everything that is, or contains, a circuit.        *)
(*                                                                         *)
(* A batch file (JSON array, env TRACE_FILE) holds thousands of traces     *)
(* recorded from the implementation.  Each trace is one API call (or one   *)
(* lookup-table line): a request (header fields), one event per gate of    *)
(* the delivered circuit, and the return.  The gate events are taken by    *)
(* the tableau machine's own action (CliffordMachine!GateStep); a gate on  *)
(* an uncoupled pair has no enabled machine action - the deviation action  *)
(* UncoupledGateStep records the clause and keeps validating.  The return  *)
(* event evaluates the postconditions of the trace kind.  Verdicts are     *)
(* total: exactly one JSON line {v: tid, c: failed clauses, x: ..} per trace.*)
(*                                                                         *)
(* kinds:                                                                  *)
(*   table    one line of a stabilizer lookup table                  (C17) *)
(*   prep     get_preparation_circuit(target, conn)            (C01,C02,C04)*)
(*   readout  get_readout_circuit(target, conn)                (C03,C02,C04)*)
(*   compress compress_preparation_circuit(program, conn)      (C07,C02,C04)*)
(*   mub      one (basis, circuit) pair of a MUB family            (C09,C02)*)
(*   meas     a tomography / stabilizer-measurement circuit        (C02)   *)
(*   witness  a competitor circuit produced by Optimality.tla      (C05)   *)
(***************************************************************************)
EXTENDS CliffordMachine, ClassIds, TLC, Json, IOUtils

Traces == JsonDeserialize(IOEnv.TRACE_FILE)
NT == Len(Traces)

VARIABLES tid,      \* index of the trace being validated
          l,        \* 0: request not yet consumed; k: k-th gate event is next; Len+1: return is next
          fails     \* clauses violated so far in this trace
vars == <<tid, l, fails, tab, cost, lvl>>

(***************************************************************************)
(* helpers                                                                 *)
(***************************************************************************)
T == Traces[tid]
AllowedOf(tr) == IF tr.conn = "" THEN {{pr[1], pr[2]} : pr \in Pairs(tr.n)} ELSE Coupling(tr.n, tr.conn)
(* measurement circuits: readout part acts on the listed qubits, coupled after mapping *)
MappedAllowed(tr) == LET C == Coupling(tr.m, tr.conn)
                     IN  {{tr.list[pr[1] + 1], tr.list[pr[2] + 1]} : pr \in {q \in Pairs(tr.m) : {q[1], q[2]} \in C}}
EntryOf(tr, id) == TableOf(tr.n, tr.conn)[id + 1]        \* <<graph, cost, depth>> of class id
TargetOf(tr) == CASE tr.kind = "compress" -> ApplySeqTab(tr.program, ZTab(tr.n))
                  [] tr.kind = "mub" -> [i \in 1..Len(tr.basis) |-> FromChars(tr.basis[i])]   \* MUB bases are Pauli strings
                  [] OTHER -> tr.target
TableVocab == {"h", "s", "sdg", "cx", "cz", "swap"}

(* layer logged by the pipeline: one 2x2 block <<axx,axz,azx,azz>> per qubit *)
ApplyLayerBody(layer, p) ==
   LET RECURSIVE Go(_, _)
       Go(q, acc) == IF q > Len(layer) THEN acc ELSE Go(q + 1, ApplyBlock(layer[q], q - 1, acc))
   IN  Go(1, Body(p))
LayerSound(tr, g, tg) == /\ Len(tr.layer) = tr.n
                     /\ \A q \in 1..tr.n : tr.layer[q] \in InvertibleBlocks
                     /\ LET GG == Span(GraphGens(tr.n, g))
                        IN  \A i \in 1..Len(tg) : ApplyLayerBody(tr.layer, tg[i]) \in GG

(***************************************************************************)
(* request event                                                           *)
(***************************************************************************)
InputClauses(tr) ==
   (IF tr.kind \in {"prep", "readout"} /\ ~ValidStabilizer(tr.n, tr.target) THEN {"bad-input"} ELSE {})
   \cup (IF tr.kind \in {"prep", "readout", "compress", "mub"} /\ ~IsSupported(tr.n, tr.conn) THEN {"bad-config"} ELSE {})
   \cup (IF tr.kind = "compress" /\ ~(\A i \in 1..Len(tr.program) : WellFormed(tr.program[i], tr.n)) THEN {"bad-input"} ELSE {})
Request == /\ l = 0 /\ tid <= NT
           /\ (IF T.kind \in {"readout", "mub"} /\ Len(TargetOf(T)) = T.n THEN Load(TargetOf(T)) ELSE Reset(T.n))
           /\ l' = 1 /\ tid' = tid
           /\ fails' = InputClauses(T)

(***************************************************************************)
(* gate events                                                             *)
(***************************************************************************)
GateEvent ==
   /\ tid <= NT /\ l >= 1 /\ l <= Len(T.gates)
   /\ LET g == T.gates[l]
          inPrep == T.kind = "meas" /\ l <= T.preplen
          allowed == IF T.kind = "meas"
                     THEN (IF inPrep THEN {{pr[1], pr[2]} : pr \in Pairs(T.n)} ELSE MappedAllowed(T))
                     ELSE AllowedOf(T)
          extra == (IF T.kind = "table" /\ g[1] \notin TableVocab THEN {"vocab"} ELSE {})
                   \cup (IF inPrep /\ (l > Len(T.prep) \/ (l <= Len(T.prep) /\ T.prep[l] # g)) THEN {"prep-changed"} ELSE {})
                   \cup (IF T.kind = "meas" /\ ~inPrep /\ WellFormed(g, T.n) /\
                            (g[2] \notin {T.list[i] : i \in 1..T.m} \/ (IsTwo(g) /\ g[3] \notin {T.list[i] : i \in 1..T.m}))
                         THEN {"outside"} ELSE {})
      IN \/ GateStep(T.n, allowed, g) /\ fails' = fails \cup extra
         \/ UncoupledGateStep(T.n, allowed, g) /\ fails' = fails \cup extra \cup {"uncoupled"}
         \/ ~WellFormed(g, T.n) /\ UNCHANGED mvars /\ fails' = fails \cup extra \cup {"unknown-gate"}
   /\ l' = l + 1 /\ tid' = tid

(***************************************************************************)
(* return event: postconditions per kind                                   *)
(***************************************************************************)
PostTable(tr) ==
   LET GG == Span(GraphGens(tr.n, tr.graph)) IN
   (IF Span(tab) # GG THEN {"state"} ELSE {})
   \cup (IF cost # tr.cost THEN {"cost"} ELSE {})
   \cup (IF MaxLvl(lvl) # tr.depth THEN {"depth"} ELSE {})
   (* filed under class id = line index: the library's classifier files the graph state there (tr.filed), and the line of the *)
   (* all-to-all table with the same index holds a graph of the same class                                                   *)
   \cup (IF tr.cls >= 0 /\ (tr.filed # tr.cls \/ (tr.cls < Len(TableOf(tr.n, "all")) /\ KeyOfGraph(tr.n, TableOf(tr.n, "all")[tr.cls + 1][1]) # ClassKey(GG)))
         THEN {"class"} ELSE {})
   (* gates2 = an independent parse of the line's TEXT by the documented grammar (vocabulary and indices are judged on it); the circuit the  *)
   (* library's loader builds from the text (gates) may be normalised differently but must be the same circuit: same signed action on      *)
   (* |0..0>, same two-qubit cost and depth                                                                                               *)
   \cup (IF ~( /\ \A i \in 1..Len(tr.gates2) : WellFormed(tr.gates2[i], tr.n) /\ tr.gates2[i][1] \in TableVocab
              /\ SignedSpan(ApplySeqTab(tr.gates2, ZTab(tr.n))) = SignedSpan(tab)
              /\ Cost(tr.gates2) = cost /\ Depth2q(tr.gates2) = MaxLvl(lvl) )
         THEN {"parse"} ELSE {})
   \cup (IF tr.nlines # NumClasses(tr.n) THEN {"count"} ELSE {})

PostApi(tr) ==      \* prep / readout / compress
   LET tg  == TargetOf(tr)
       ok  == ValidStabilizer(tr.n, tg)
       id  == IF ok THEN IdOfGroup(tr.n, Span(tg)) ELSE -1          \* only for the `classify` diagnostic (ids via get_graph)
       ent == IF ok /\ IsSupported(tr.n, tr.conn) THEN EntryOfGroup(tr.n, tr.conn, Span(tg)) ELSE <<-1, -1, -1>>
       has == ent[1] >= 0                                          \* the table has a line for the target's class
   IN
   IF tr.raised = 1 THEN (IF ok /\ IsSupported(tr.n, tr.conn) THEN {"raised"} ELSE {}) ELSE
   (IF tr.kind \in {"prep", "compress"} /\ ~(ok /\ SignedSpan(tab) = SignedSpan(tg)) THEN {"state"} ELSE {})
   \cup (IF tr.kind = "readout" /\ ~(ok /\ AllDiagonal) THEN {"diag"} ELSE {})
   \cup (IF tr.kind = "readout" /\ ~(Span(ApplySeqTab(Inverse(tr.gates), ZTab(tr.n))) = Span(tg)) THEN {"inverse"} ELSE {})
   \cup (IF tr.kind = "readout" /\ tr.hasalt = 1 /\ tr.alt # tr.gates THEN {"sign-dep"} ELSE {})
   \cup (IF ~has THEN {"no-class"} ELSE {})
   \cup (IF has /\ cost # ent[2] THEN {"cost"} ELSE {})
   \cup (IF has /\ MaxLvl(lvl) # ent[3] THEN {"depth"} ELSE {})
   \cup (IF tr.cls >= 0 /\ tr.cls # id THEN {"classify"} ELSE {})
   \cup (IF tr.graph >= 0 /\ has /\ <<tr.graph, tr.cost, tr.depth>> # ent THEN {"lookup"} ELSE {})
   \cup (IF Len(tr.layer) > 0 /\ tr.graph >= 0 /\ ~LayerSound(tr, tr.graph, tg) THEN {"layer"} ELSE {})
   \cup (IF tr.unchanged = 0 THEN {"args-mutated"} ELSE {})

PostMub(tr) ==
   (IF ~ValidStabilizer(tr.n, TargetOf(tr)) THEN {"basis"} ELSE {})
   \cup (IF ~(Len(tab) = tr.n /\ AllDiagonal) THEN {"diag"} ELSE {})
   \cup (IF tr.cost >= 0 /\ cost # tr.cost THEN {"cost"} ELSE {})

(* a competitor circuit found by the Optimality model: must be coupled, have the claimed cost and prepare a *)
(* state of the claimed class                                                                               *)
PostWitness(tr) ==
   (IF cost # tr.cost THEN {"cost"} ELSE {})
   \cup (IF LineOfGroup(tr.n, tr.conn, Span(tab)) # tr.cls + 1 THEN {"class"} ELSE {})

PostMeas(tr) ==
   (IF Len(tr.gates) < tr.preplen THEN {"prep-changed"} ELSE {})
   \cup (IF ~(/\ Len(tr.measures) = tr.n
              /\ \A q \in 0..(tr.n - 1) : \E i \in 1..Len(tr.measures) : tr.measures[i] = <<q, q>>)
         THEN {"measure"} ELSE {})
   \cup (LET k == Len(tr.gates) - tr.preplen
             back(q) == (CHOOSE i \in 1..tr.m : tr.list[i] = q) - 1
             mapped == [i \in 1..k |-> LET g == tr.gates[tr.preplen + i]
                                       IN <<g[1], back(g[2]), IF g[3] >= 0 THEN back(g[3]) ELSE -1>>]
         IN IF "outside" \notin fails /\ "unknown-gate" \notin fails /\ k >= 0 /\ mapped # tr.ro
            THEN {"metadata"} ELSE {})

Return ==
   /\ tid <= NT /\ l = Len(T.gates) + 1
   /\ LET post == CASE T.kind = "table" -> PostTable(T)
                    [] T.kind \in {"prep", "readout", "compress"} -> PostApi(T)
                    [] T.kind = "mub" -> PostMub(T)
                    [] T.kind = "meas" -> PostMeas(T)
                    [] T.kind = "witness" -> PostWitness(T)
                    [] OTHER -> {"unknown-kind"}
          all == fails \cup post
          line == IF T.kind \in {"prep", "readout", "compress"} /\ IsSupported(T.n, T.conn) /\ ValidStabilizer(T.n, TargetOf(T))
                  THEN LineOfGroup(T.n, T.conn, Span(TargetOf(T))) ELSE 0          \* table line (1-based) of the target's class
      IN PrintT(ToJson([v |-> tid, c |-> all, x |-> <<cost, MaxLvl(lvl), line>>]))
   /\ tid' = tid + 1 /\ l' = 0 /\ fails' = {}
   /\ UNCHANGED mvars

Init == tid = 1 /\ l = 0 /\ fails = {} /\ tab = <<>> /\ cost = 0 /\ lvl = Lvl0
Next == Request \/ GateEvent \/ Return
Spec == Init /\ [][Next]_vars
(* the harness requires exactly NT verdict lines; a missing verdict is a machinery failure *)
Done == tid = NT + 1
=============================================================================
