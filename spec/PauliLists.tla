------------------------------ MODULE PauliLists ------------------------------
(* builder model: every list of N signed Paulis on N qubits is a state (inputs for C08 / C14; valid or not) *)
EXTENDS Pauli, TLC, Json
CONSTANT N
VARIABLE gens
All == {Mk(x, z, s) : x \in 0..(P2(N) - 1), z \in 0..(P2(N) - 1), s \in 0..1}
Init == gens \in [1..N -> All]
Next == UNCHANGED gens
Dump == PrintT(ToJson([gens |-> gens, valid |-> ValidStabilizer(N, gens)]))
=============================================================================
