------------------------------- MODULE ClassIds -------------------------------
(***************************************************************************)
(* Class ids: the id of a class is the index of its representative in the  *)
(* exported list RepGraphs(n) (LCClass<n>(id).get_graph()).  That these    *)
(* representatives are a system of distinct representatives of all local-  *)
(* Clifford classes is model-checked by LCOrbits / LCGroups (C06).         *)
(***************************************************************************)
EXTENDS Classes, Exported
(***************************************************************************)
(* class keys and ids                                                      *)
(***************************************************************************)
KeysOf(n) == [i \in 1..Len(RepGraphs(n)) |-> KeyOfGraph(n, RepGraphs(n)[i])]
Keys2 == KeysOf(2)
Keys3 == KeysOf(3)
Keys4 == KeysOf(4)
Keys5 == KeysOf(5)
Keys6 == KeysOf(6)
Inv(ks) == [k \in {ks[i] : i \in DOMAIN ks} |-> (CHOOSE i \in DOMAIN ks : ks[i] = k) - 1]
IdBy2 == Inv(Keys2)
IdBy3 == Inv(Keys3)
IdBy4 == Inv(Keys4)
IdBy5 == Inv(Keys5)
IdBy6 == Inv(Keys6)
IdByKey(n) == CASE n = 2 -> IdBy2 [] n = 3 -> IdBy3 [] n = 4 -> IdBy4 [] n = 5 -> IdBy5 [] n = 6 -> IdBy6
(* class id of a sign-free group; -1 if its key is not the key of any representative *)
IdOfGroup(n, G) == LET k == ClassKey(G) f == IdByKey(n) IN IF k \in DOMAIN f THEN f[k] ELSE -1

(***************************************************************************)
(* The table entry the library's lookup metadata holds FOR A CLASS: the    *)
(* line of the (n, conn) table whose graph has the class key of the given  *)
(* group.  Independent of class ids and of get_graph(): used wherever a    *)
(* property speaks about "the cost / depth reported for the class".        *)
(* <<graph, cost, depth>>, or <<-1,-1,-1>> if no line has that key.        *)
(***************************************************************************)
LineOfGroup(n, conn, G) == LET k == ClassKey(G) f == EntryIndexByKey(n, conn) IN IF k \in DOMAIN f THEN f[k] ELSE 0
EntryOfGroup(n, conn, G) == LET i == LineOfGroup(n, conn, G) IN IF i > 0 THEN TableOf(n, conn)[i] ELSE <<-1, -1, -1>>

=============================================================================
