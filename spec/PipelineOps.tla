------------------------------ MODULE PipelineOps ------------------------------
(***************************************************************************)
(* Constant-level operators shared by the design-level models of the       *)
(* library's algorithm (Pipeline.tla: all valid requests; PipelineFaults:  *)
(* arbitrary - also invalid / unsupported - requests).                     *)
(***************************************************************************)
EXTENDS ClassIds, TLC
CONSTANTS N, Conn
Q == 0..(N - 1)
Z0 == [i \in 1..N |-> ZOn(i - 1)]
Allowed == Coupling(N, Conn)

(* inverse of the gate word of class c on qubit q (the library composes table circuit . layer^-1) *)
InvLocWord(c, q) == Inverse(LocWord(c, q))
RECURSIVE InvLayerGates(_, _)
InvLayerGates(L, q) == IF q = N THEN <<>> ELSE InvLocWord(L[q], q) \o InvLayerGates(L, q + 1)
RECURSIVE ApplyLayerC(_, _, _)
ApplyLayerC(L, q, p) == IF q = N THEN p ELSE ApplyLayerC(L, q + 1, Loc(L[q], q, p))
SoundL(L, ps, g) == LET GG == Span(GraphGens(N, g)) IN \A k \in DOMAIN ps : ApplyLayerC(L, 0, Body(ps[k])) \in GG
(* the same with the graph state's group computed once by the caller *)
SoundLG(L, ps, GG) == \A k \in DOMAIN ps : ApplyLayerC(L, 0, Body(ps[k])) \in GG

(* the H-H cancellation pass: delete two h on the same qubit with nothing in between on that qubit *)
Touches(g, q) == g[2] = q \/ g[3] = q
CancelPairs(gs) == {pr \in (1..Len(gs)) \X (1..Len(gs)) :
                      /\ pr[1] < pr[2] /\ gs[pr[1]][1] = "h" /\ gs[pr[2]] = gs[pr[1]]
                      /\ \A k \in (pr[1] + 1)..(pr[2] - 1) : ~Touches(gs[k], gs[pr[1]][2])}
RemoveTwo(gs, i, j) == [k \in 1..(Len(gs) - 2) |-> IF k < i THEN gs[k] ELSE IF k < j - 1 THEN gs[k + 1] ELSE gs[k + 2]]
RECURSIVE CancelHH(_)
CancelHH(gs) == LET P == CancelPairs(gs) IN
                IF P = {} THEN gs
                ELSE LET pr == CHOOSE p \in P : \A o \in P : p[1] < o[1] \/ (p[1] = o[1] /\ p[2] <= o[2])
                     IN  CancelHH(RemoveTwo(gs, pr[1], pr[2]))

=============================================================================
