----------------------------- MODULE GraphMachine -----------------------------
(***************************************************************************)
(* The graph machine: all simple graphs on N labelled vertices as states   *)
(* (integer ids with the documented bit layout), actions local             *)
(* complementation, edge toggle and vertex swap (C19).                     *)
(***************************************************************************)
EXTENDS Classes, TLC, Json
CONSTANTS N, Ops, InitAll, PrintOps
VARIABLE gid
Q == 0..(N - 1)
Init == IF InitAll THEN gid \in 0..(P2(NumPairs(N)) - 1) ELSE gid = 0
Complement(v) == gid' = LC(N, gid, v)
ToggleEdge(i, j) == gid' = Toggle(N, gid, i, j)
SwapVertices(a, b) == gid' = SwapV(N, gid, a, b)
Next == \/ "lc" \in Ops /\ \E v \in Q : Complement(v)
        \/ "toggle" \in Ops /\ \E pr \in Pairs(N) : ToggleEdge(pr[1], pr[2])
        \/ "swap" \in Ops /\ \E pr \in Pairs(N) : SwapVertices(pr[1], pr[2])
Spec == Init /\ [][Next]_gid
(* transitions printed from inside the action (BFS: each transition evaluated once) *)
NextDump == \/ "lc" \in Ops /\ \E v \in Q : Complement(v) /\ ("lc" \in PrintOps => PrintT(ToJson([k |-> "X", op |-> "lc", src |-> gid, a |-> v, b |-> -1, dst |-> gid'])))
            \/ "toggle" \in Ops /\ \E pr \in Pairs(N) : ToggleEdge(pr[1], pr[2]) /\ ("toggle" \in PrintOps => PrintT(ToJson([k |-> "X", op |-> "toggle", src |-> gid, a |-> pr[1], b |-> pr[2], dst |-> gid'])))
            \/ "swap" \in Ops /\ \E pr \in Pairs(N) : SwapVertices(pr[1], pr[2]) /\ ("swap" \in PrintOps => PrintT(ToJson([k |-> "X", op |-> "swap", src |-> gid, a |-> pr[1], b |-> pr[2], dst |-> gid'])))
SpecDump == Init /\ [][NextDump]_gid

Simple == gid \in 0..(P2(NumPairs(N)) - 1)
(* compress / decompress are mutually inverse: id -> edge set -> id and rows -> id *)
Codec == FromEdgeSet(N, EdgeSet(N, gid)) = gid /\ FromRows(N, Rows(N, gid)) = gid
         /\ \A pr \in Pairs(N) : HasEdge(N, gid, pr[1], pr[2]) = (Bit(Rows(N, gid)[pr[1] + 1], pr[2]) = 1)
         /\ \A v \in Q : Bit(Rows(N, gid)[v + 1], v) = 0
Involution == \A v \in Q : LC(N, LC(N, gid, v), v) = gid
Faithful == \A v \in Q : \A pr \in Pairs(N) :
               HasEdge(N, LC(N, gid, v), pr[1], pr[2]) =
                  (IF HasEdge(N, gid, v, pr[1]) /\ HasEdge(N, gid, v, pr[2])
                   THEN ~HasEdge(N, gid, pr[1], pr[2]) ELSE HasEdge(N, gid, pr[1], pr[2]))
LCKeepsClass == \A v \in Q : KeyOfGraph(N, LC(N, gid, v)) = KeyOfGraph(N, gid)
SwapIsRelabel == \A pr \in Pairs(N) : \A e \in Pairs(N) :
                    LET s(v) == IF v = pr[1] THEN pr[2] ELSE IF v = pr[2] THEN pr[1] ELSE v
                    IN  HasEdge(N, SwapV(N, gid, pr[1], pr[2]), s(e[1]), s(e[2])) = HasEdge(N, gid, e[1], e[2])
=============================================================================
