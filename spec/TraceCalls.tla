------------------------------ MODULE TraceCalls ------------------------------
(***************************************************************************)
(* Trace validation for calls of the library's pure functions: every       *)
(* record of the batch (JSON array, env TRACE_FILE) is one call            *)
(* (operation, arguments, result) recorded from the implementation - a     *)
(* one-step trace.  The spec evaluates the declarative meaning of the      *)
(* operation and prints one JSON line {v: tid, c: failed clauses} per record*)
(***************************************************************************)
EXTENDS ClassIds, Calls, TLC, Json, IOUtils

Traces == JsonDeserialize(IOEnv.TRACE_FILE)
NT == Len(Traces)
VARIABLE tid
Init == tid = 1
Step == /\ tid <= NT
        /\ PrintT(ToJson([v |-> tid, c |-> Judge(Traces[tid]), x |-> <<>>, o |-> Output(Traces[tid])]))
        /\ tid' = tid + 1
Spec == Init /\ [][Step]_tid
=============================================================================
