------------------------------ MODULE Optimality ------------------------------
(***************************************************************************)
(* Class-level shortest paths (C05).  Every action is "one two-qubit gate  *)
(* on a coupled pair, preceded by arbitrary single-qubit Cliffords on the  *)
(* two qubits"; the state is quotiented by local Cliffords through the     *)
(* VIEW (class key).  With one worker (strict FIFO queue) the BFS level at *)
(* which a class is first seen is the minimum number of two-qubit gates    *)
(* over ALL circuits of single-qubit Cliffords and CX/CZ on coupled pairs: *)
(*  - single-qubit gates on other qubits commute with the CZ and can be    *)
(*    deferred; a final local layer does not change the class;             *)
(*  - CX = (1 x H) CZ (1 x H), SWAP = three CX (GateLaws);                 *)
(*  - the quotient is a bisimulation because ca, cb range over a set of    *)
(*    local classes closed (up to gates commuting with CZ) under           *)
(*    composition with every local Clifford.                               *)
(* LocalChoices = 0..5 is the full set; {0,1,5} = {I,H,HSH} are            *)
(* representatives of the cosets of {I,S} (S commutes with CZ, GateLaws).  *)
(***************************************************************************)
EXTENDS ClassIds, TLC, Json
CONSTANTS N, Conn, LocalChoices, UseView
VARIABLES stab, path
vars == <<stab, path>>
Edges == {pr \in Pairs(N) : {pr[1], pr[2]} \in Coupling(N, Conn)}
ZStab == [i \in 1..N |-> Body(ZOn(i - 1))]
Init == stab = ZStab /\ path = <<>>
TwoQubitStep(a, b, ca, cb) ==
   /\ stab' = [i \in DOMAIN stab |-> Body(GCZ(a, b, Loc(cb, b, Loc(ca, a, stab[i]))))]
   /\ path' = Append(path, <<a, b, ca, cb>>)
Next == \E e \in Edges, ca \in LocalChoices, cb \in LocalChoices : TwoQubitStep(e[1], e[2], ca, cb)
Spec == Init /\ [][Next]_vars
ClassView == ClassKey(Span(stab))
GroupView == Span(stab)
TypeOK == ValidStabilizer(N, stab)
(* first visit of a class (invariants are evaluated on new states only): its BFS level is its minimal cost *)
(* the class is named by the line of the (N, Conn) table whose graph lies in it (0-based, -1 if none) *)
Dist == PrintT(ToJson([k |-> "D", id |-> LineOfGroup(N, Conn, Span(stab)) - 1, d |-> Len(path), path |-> path]))
=============================================================================
