------------------------------- MODULE Graphs -------------------------------
(***************************************************************************)
(* Simple graphs on n <= 8 labelled vertices as integers ("graph id"):     *)
(* bit Idx(n,i,j) of the id is the edge {i,j}, i < j, the upper triangle   *)
(* of the adjacency matrix read row by row, least significant bit first    *)
(* (documented in circuit_lookup.py and Graph.compress).                   *)
(* Also: the documented coupling graphs of the 20 supported connectivities.*)
(***************************************************************************)
EXTENDS Pauli

Idx(n, i, j) == i * n - (i * (i + 1)) \div 2 + (j - i - 1)
NumPairs(n) == (n * (n - 1)) \div 2
Pairs(n) == {pr \in (0..(n-1)) \X (0..(n-1)) : pr[1] < pr[2]}
HasEdge(n, g, i, j) == i # j /\ Bit(g, IF i < j THEN Idx(n, i, j) ELSE Idx(n, j, i)) = 1
Toggle(n, g, i, j) == g ^^ P2(IF i < j THEN Idx(n, i, j) ELSE Idx(n, j, i))
(* neighbourhood of v as a bit mask *)
RECURSIVE RowFrom(_, _, _, _)
RowFrom(n, g, v, j) == IF j = n THEN 0
                       ELSE (IF HasEdge(n, g, v, j) THEN P2(j) ELSE 0) + RowFrom(n, g, v, j + 1)
Row(n, g, v) == RowFrom(n, g, v, 0)
Rows(n, g) == [i \in 1..n |-> Row(n, g, i - 1)]
(* graph id of a symmetric 0/1 adjacency given as rows of bit masks *)
RECURSIVE SumSet(_)
SumSet(S) == IF S = {} THEN 0 ELSE LET e == CHOOSE e \in S : TRUE IN e + SumSet(S \ {e})
FromRows(n, rows) == SumSet({P2(Idx(n, pr[1], pr[2])) : pr \in {q \in Pairs(n) : Bit(rows[q[1] + 1], q[2]) = 1}})
EdgeSet(n, g) == {{pr[1], pr[2]} : pr \in {q \in Pairs(n) : HasEdge(n, g, q[1], q[2])}}
FromEdgeSet(n, E) == SumSet({P2(Idx(n, pr[1], pr[2])) : pr \in {q \in Pairs(n) : {q[1], q[2]} \in E}})

(* local complementation at v: complement the subgraph induced on N(v) *)
LC(n, g, v) == LET nb == Row(n, g, v)
                   tg == {pr \in Pairs(n) : Bit(nb, pr[1]) = 1 /\ Bit(nb, pr[2]) = 1}
               IN  g ^^ SumSet({P2(Idx(n, pr[1], pr[2])) : pr \in tg})
(* relabel vertices a <-> b *)
SwapV(n, g, a, b) == LET s(v) == IF v = a THEN b ELSE IF v = b THEN a ELSE v
                     IN  FromEdgeSet(n, {{s(CHOOSE x \in e : TRUE), s(CHOOSE y \in e : y # (CHOOSE x \in e : TRUE))} : e \in EdgeSet(n, g)})

(* graph state: generators X_v Z_N(v), all signs + *)
GraphGens(n, g) == [i \in 1..n |-> Mk(P2(i - 1), Row(n, g, i - 1), 0)]

(***************************************************************************)
(* Coupling graphs, transcribed from README / docstrings / property C02.   *)
(***************************************************************************)
Chain(n)  == {{i, i + 1} : i \in 0..(n - 2)}
Coupling(n, conn) ==
  CASE conn = "all"    -> {{pr[1], pr[2]} : pr \in Pairs(n)}
    [] conn = "linear" -> Chain(n)
    [] conn = "star"   -> {{0, i} : i \in 1..(n - 1)}
    [] conn = "cycle"  -> Chain(n) \cup {{0, n - 1}}
    [] conn = "T"      -> {{4, 3}, {3, 0}, {0, 1}, {0, 2}}
    [] conn = "Q"      -> Chain(n) \cup {{n - 1, n - 4}}
    [] conn = "ladder" -> Chain(6) \cup {{0, 5}, {1, 4}}
    [] conn = "E"      -> {{3, 0}, {0, 1}, {1, 2}, {2, 5}, {1, 4}}
    [] conn = "H"      -> {{0, 1}, {1, 2}, {3, 4}, {4, 5}, {1, 4}}
    [] OTHER           -> {}
Supported == { <<2, "all">>,
               <<3, "all">>, <<3, "linear">>,
               <<4, "all">>, <<4, "linear">>, <<4, "star">>, <<4, "cycle">>,
               <<5, "all">>, <<5, "linear">>, <<5, "star">>, <<5, "cycle">>, <<5, "T">>, <<5, "Q">>,
               <<6, "all">>, <<6, "linear">>, <<6, "star">>, <<6, "ladder">>, <<6, "E">>, <<6, "H">>, <<6, "Q">> }
IsSupported(n, conn) == <<n, conn>> \in Supported
(* number of local-Clifford classes of n-qubit stabilizer states (C06) *)
NumClasses(n) == CASE n = 2 -> 2 [] n = 3 -> 5 [] n = 4 -> 18 [] n = 5 -> 93 [] n = 6 -> 760 [] OTHER -> 0
=============================================================================
