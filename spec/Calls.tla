--------------------------------- MODULE Calls ---------------------------------
(***************************************************************************)
(* Declarative meaning of the library's pure operations, one judgement per *)
(* operation:  Judge(record) = set of clauses the recorded call violates.  *)
(***************************************************************************)
EXTENDS ClassIds, F2, Tomography, CallsExtra, TLC

C(cond, clause) == IF cond THEN {} ELSE {clause}

(* determine_lc_class(Stabilizer(gens)).id() = id;  LCClass<n>(id).id() = reid *)
JudgeClassify(r) ==
   IF ~ValidStabilizer(r.n, r.gens) THEN {"bad-input"}
   ELSE C(r.id \in 0..(NumClasses(r.n) - 1), "range")
        \cup C(IdOfGroup(r.n, Span(r.gens)) = r.id, "classify")
        \cup C(r.reid = r.id, "reid")

(***************************************************************************)
(* A MUB family as returned by get_mubs / get_mub_circuits / get_mub_info  *)
(* (C09): bases are lists of Pauli strings (chars), circuits gate lists,   *)
(* readouts the library's own readout circuits for the same bases.         *)
(***************************************************************************)
RECURSIVE SumSeq(_, _)
SumSeq(s, i) == IF i > Len(s) THEN 0 ELSE s[i] + SumSeq(s, i + 1)
MaxSeq(s) == IF Len(s) = 0 THEN 0 ELSE CHOOSE m \in {s[i] : i \in DOMAIN s} : \A i \in DOMAIN s : s[i] <= m
JudgeMubFam(r) ==
   LET M == P2(r.n) + 1
       B(i) == [j \in 1..Len(r.bases[i]) |-> FromChars(r.bases[i][j])]
       nb == Len(r.bases)
       spans == [i \in 1..nb |-> Span(B(i)) \ {Identity}]
       costs == [i \in 1..Len(r.circuits) |-> Cost(r.circuits[i])]
       depths == [i \in 1..Len(r.circuits) |-> Depth2q(r.circuits[i])]
       rcosts == [i \in 1..Len(r.readouts) |-> Cost(r.readouts[i])]
       union == UNION {spans[i] : i \in 1..nb}
   IN  C(nb = M /\ Len(r.circuits) = M, "count")
       \cup C(\A i \in 1..nb : Len(r.bases[i]) = r.n /\ (\A j \in 1..Len(r.bases[i]) : NumQubitsOfChars(r.bases[i][j]) = r.n)
                                 /\ ValidStabilizer(r.n, B(i)), "basis")
       \cup C(\A i \in 1..nb : \A j \in 1..nb : i < j => spans[i] \cap spans[j] = {}, "disjoint")
       \cup C(Cardinality(union) = P2(2 * r.n) - 1, "complete")
       \cup C(r.info.num = M, "info-num")
       \cup C(r.info.maxcost = MaxSeq(costs), "info-maxcost")
       \cup C(r.info.maxdepth = MaxSeq(depths), "info-maxdepth")
       \cup C(r.info.avg[1] * M = SumSeq(costs, 1) * r.info.avg[2], "info-avg")
       \cup C(Len(rcosts) = Len(costs) /\ \A i \in 1..Len(costs) : i <= Len(rcosts) => costs[i] <= rcosts[i], "worse-than-readout")

(* get_connectivity_graph(n, conn).get_edges() is the documented coupling graph (C02) *)
JudgeConnGraph(r) ==
   C(IsSupported(r.n, r.conn), "bad-input")
   \cup C({{r.edges[i][1], r.edges[i][2]} : i \in 1..Len(r.edges)} = Coupling(r.n, r.conn), "coupling-graph")
   \cup C(r.nv = r.n, "coupling-graph")
   \cup C(FromRows(r.n, r.rows) = FromEdgeSet(r.n, Coupling(r.n, r.conn)), "coupling-graph")

(***************************************************************************)
(* f2_algebra (C18): one record = the four routines called on one matrix.  *)
(* A: m x n input; R, piv: rref(A); rank; R2, M, Minv: rref_and_basis_     *)
(* change(A); ns: null_space(A) with shape / dtype kind; unchanged flag.   *)
(***************************************************************************)
JudgeF2(r) ==
   IF ~IsBinary(r.A, r.m, r.n) THEN {"bad-input"} ELSE
   LET Rx == Rref(r.A, r.n)
       px == PivotCols(Rx)
   IN  C(r.R = Rx, "rref")
       \cup C(r.piv = px, "pivots")
       \cup C(r.rank = Len(px), "rank")
       \cup C(r.R2 = Rx, "rref2")
       \cup C(IsBinary(r.M, r.m, r.m) /\ MatMul(r.M, r.A, r.n) = Rx, "basis-change")
       \cup C(IsBinary(r.M, r.m, r.m) /\ IsBinary(r.Minv, r.m, r.m) /\ MatMul(r.M, r.Minv, r.m) = IdentityMat(r.m), "inverse")
       \cup C(r.ns.ok = 1 /\ r.ns.shape = <<r.n - Len(px), r.n>> /\ r.ns.intdtype = 1, "well-typed")
       \cup C(r.ns.ok = 1 /\ IsKernelBasis(r.ns.rows, r.A, r.n), "kernel")
       \cup C(r.n > 10 \/ (r.ns.ok = 1 /\ RowSpace(r.ns.rows) = Kernel(r.A, r.n)), "kernel-exact")
       \cup C(r.unchanged = 1, "args-mutated")

(***************************************************************************)
(* Graph codec and mutators (C19): one record = one transition of the      *)
(* graph machine replayed into the Graph class.                            *)
(*   src, kind (lc | toggle | swap), a, b: the transition                  *)
(*   srcrows: adjacency rows of Graph.decompress(n, src); srcid: its       *)
(*   compress(); rows / id: adjacency rows / compress() after the mutation *)
(***************************************************************************)
JudgeGraphOp(r) ==
   LET exp == CASE r.kind = "lc" -> LC(r.n, r.src, r.a)
                [] r.kind = "toggle" -> Toggle(r.n, r.src, r.a, r.b)
                [] r.kind = "swap" -> SwapV(r.n, r.src, r.a, r.b)
                [] OTHER -> r.src
   IN  C(r.srcrows = Rows(r.n, r.src), "decompress")
       \cup C(r.srcid = r.src, "compress")
       \cup C(r.rows = Rows(r.n, exp), r.kind)
       \cup C(r.id = exp, "compress-after")
       \cup C(\A v \in 1..r.n : Bit(r.rows[v], v - 1) = 0, "simple")
       \cup C(\A u \in 1..r.n : \A v \in 1..r.n : Bit(r.rows[u], v - 1) = Bit(r.rows[v], u - 1), "simple")
       \cup C(r.kind # "lc" \/ r.twice = r.src, "involution")
       \cup C(r.kind # "lc" \/ r.id2 = exp, "lc-copy")
       (* the copying variant local_complemented(): the same graph as the in-place one, read through its adjacency rows (diagonal included), *)
       (* and it leaves the graph it was called on untouched                                                                                *)
       \cup C(r.kind # "lc" \/ (r.rows2 = Rows(r.n, exp) /\ r.rowskept = r.srcrows), "lc-copy")

(***************************************************************************)
(* Grouping codecs of linear_index (C19).  A grouping of shape `sizes` is  *)
(* a partition of 0..n-1 into blocks with that multiset of sizes (for the  *)
(* type with ordered singles additionally an order of its two singletons). *)
(* images[i+1] = blocks of to_X(i); back[i+1] = from_X(to_X(i));           *)
(* perm[i+1] = from_X of the same grouping with its blocks listed in other *)
(* orders; singles[i+1] = the singleton blocks in the order to_X lists them*)
(***************************************************************************)
BlockSet(bs) == {{b[k] : k \in 1..Len(b)} : b \in {bs[i] : i \in 1..Len(bs)}}
IsPartition(P, n) == /\ UNION P = 0..(n - 1)
                     /\ \A X \in P : \A Y \in P : X # Y => X \cap Y = {}
                     /\ {} \notin P
SizesOf(bs) == [k \in 1..6 |-> Cardinality({i \in 1..Len(bs) : Len(bs[i]) = k})]
Fact(k) == CASE k = 0 -> 1 [] k = 1 -> 1 [] k = 2 -> 2 [] k = 3 -> 6 [] k = 4 -> 24 [] k = 5 -> 120 [] k = 6 -> 720
RECURSIVE ProdSizes(_, _)
ProdSizes(sz, k) == IF k > 6 THEN 1 ELSE (Fact(k) ^ sz[k]) * Fact(sz[k]) * ProdSizes(sz, k + 1)
(* number of set partitions of n elements with sz[k] blocks of size k *)
NumPartitions(n, sz) == Fact(n) \div ProdSizes(sz, 1)
JudgeGrouping(r) ==
   LET cnt == Len(r.images)
       parts == [i \in 1..cnt |-> BlockSet(r.images[i])]
       tagged == [i \in 1..cnt |-> IF r.ordered = 1 THEN <<parts[i], r.singles[i]>> ELSE <<parts[i], <<>>>>]
   IN  C(cnt = r.count, "count")
       \cup C(r.count = NumPartitions(r.n, r.sizes) * (IF r.ordered = 1 THEN 2 ELSE 1), "count")
       \cup C(\A i \in 1..cnt : IsPartition(parts[i], r.n) /\ SizesOf(r.images[i]) = r.sizes
                                  /\ (\A b \in 1..Len(r.images[i]) : Cardinality({r.images[i][b][k] : k \in 1..Len(r.images[i][b])}) = Len(r.images[i][b])), "shape")
       \cup C(Cardinality({tagged[i] : i \in 1..cnt}) = cnt, "injective")
       \cup C(\A i \in 1..cnt : r.back[i] = i - 1, "roundtrip")
       \cup C(\A i \in 1..cnt : \A k \in 1..Len(r.perm[i]) : r.perm[i][k] = i - 1, "block-order")
(* class ids: _start_indices consistent with the combinatorics counts; every id decodes and re-encodes to itself *)
JudgeStartIdx(r) ==
   C(r.starts[1] = 0 /\ r.starts[Len(r.starts)] = NumClasses(r.n), "start-indices")
   \cup C(Len(r.starts) = Len(r.counts) + 1 /\ \A k \in 1..Len(r.counts) : r.starts[k + 1] - r.starts[k] = r.counts[k], "start-indices")
   \cup C(Len(r.reids) = NumClasses(r.n) /\ \A i \in 1..Len(r.reids) : r.reids[i] = i - 1, "reid")
   \cup C(\A i \in 1..Len(r.types) : i < Len(r.types) => r.types[i] <= r.types[i + 1], "start-indices")

(***************************************************************************)
(* Input formats (C14).  obj = the object the constructor built, read back *)
(* through its public attributes R, S, phases.                             *)
(***************************************************************************)
ZeroVec(n) == [i \in 1..n |-> 0]
JudgeDenote(r) ==
   LET obj == FromMatrices(r.R, r.S, r.ph)
       n == r.n
   IN  C(Len(r.R) = n /\ Len(r.S) = n /\ Len(r.ph) = n, "shape")
       \cup (CASE r.fmt = "strings" ->
                   C(n = NumQubitsOfChars(r.strs[1]) /\ Len(r.strs) = n /\ \A j \in 1..n : obj[j] = FromChars(r.strs[j]), "denote-strings")
               [] r.fmt = "matrices" ->
                   C(obj = FromMatrices(r.Rin, r.Sin, IF r.hasph = 1 THEN r.phin ELSE ZeroVec(n)), "denote-matrices")
               [] r.fmt = "graph" -> C(obj = GraphGens(n, r.g), "denote-graph")
               [] r.fmt = "circuit" ->
                   C(ValidStabilizer(n, obj) /\ SignedSpan(obj) = SignedSpan(ApplySeqTab(r.program, [i \in 1..n |-> ZOn(i - 1)])), "denote-circuit")
               [] OTHER -> {"unknown-format"})
       \cup C(Len(r.tolist) = n /\ \A j \in 1..n : r.tolist[j] = ToChars(obj[j], n), "to-list")
       \cup C(Len(r.tolistq) = n /\ \A j \in 1..n : r.tolistq[j] = ToCharsMirrored(obj[j], n), "mirror")
       \cup C(FromMatrices(r.R2, r.S2, r.ph2) = obj, "roundtrip")
       \cup C(r.unchanged = 1, "args-mutated")

(***************************************************************************)
(* Group predicates (C15) on valid stabilizers a, b.                       *)
(***************************************************************************)
RECURSIVE ColMaskM(_, _, _)
ColMaskM(M, j, q) == IF q > Len(M) THEN 0 ELSE (M[q][j] % 2) * P2(q - 1) + ColMaskM(M, j, q + 1)
JudgePred(r) ==
   IF ~(ValidStabilizer(r.n, r.a) /\ ValidStabilizer(r.n, r.b)) THEN {"bad-input"} ELSE
   LET G == Span(r.a)
       ncols == IF Len(r.expX) = 0 THEN 0 ELSE Len(r.expX[1])
       cols == [i \in 1..ncols |-> Mk(ColMaskM(r.expX, i, 1), ColMaskM(r.expZ, i, 1), 0)]
   IN  C((r.equiv = 1) = (G = Span(r.b)), "equivalent")
       \cup C(ncols = P2(r.n) /\ {cols[i] : i \in 1..ncols} = G, "expand")
       \cup C(Len(r.ent) = r.n /\ \A q \in 0..(r.n - 1) : (r.ent[q + 1] = 1) = ~(\E p \in G : Supp(p) = P2(q)), "entangled")
       (* asked again on the same objects after the caller overwrote the arrays it had been given; the other way round for equivalence *)
       \cup C(r.expX2 = r.expX /\ r.expZ2 = r.expZ /\ r.ent2 = r.ent, "repeatable")
       \cup C(r.equiv2 = r.equiv, "symmetric")

(***************************************************************************)
(* Local-Clifford layer search (C16).  P: m sign-free Paulis on n qubits,  *)
(* g: graph id; res: "none" | "layer" | "raise"; blocks: one 2x2 block per *)
(* qubit of the returned layer; gates: local_clifford_layer_to_circuit.    *)
(* A layer L is sound when it maps every operator into the graph group.    *)
(***************************************************************************)
ApplyBlocks(blocks, p) ==
   LET RECURSIVE Go(_, _)
       Go(q, acc) == IF q > Len(blocks) THEN acc ELSE Go(q + 1, ApplyBlock(blocks[q], q - 1, acc))
   IN  Go(1, Body(p))
SoundLayer(blocks, P, GG) == \A i \in 1..Len(P) : ApplyBlocks(blocks, P[i]) \in GG
AllLayers(n) == [1..n -> InvertibleBlocks]
LayerExists(n, P, GG, full) ==
   IF full THEN KeyOfGens(P) = ClassKey(GG)          \* full stabilizers: a layer exists iff same class (LCGroups)
   ELSE \E L \in AllLayers(n) : SoundLayer(L, P, GG)
JudgeLayer(r) ==
   LET GG == Span(GraphGens(r.n, r.g))
       full == Len(r.P) = r.n /\ ValidStabilizer(r.n, r.P)
       (* existence of a layer: by a witness handed over with the record (checked here), by brute force over the 6^n layers (n <= 4), *)
       (* or, for full stabilizers of n >= 5, by equality of the class keys (LCGroups)                                           *)
       witnessed == Len(r.witness) = r.n /\ (\A q \in 1..r.n : r.witness[q] \in InvertibleBlocks) /\ SoundLayer(r.witness, r.P, GG)
       decided == witnessed \/ r.n <= 4 \/ full
       ex == witnessed \/ (IF r.n <= 4 THEN LayerExists(r.n, r.P, GG, FALSE) ELSE (full /\ LayerExists(r.n, r.P, GG, TRUE)))
   IN  C(Len(r.witness) = 0 \/ witnessed, "bad-input")
       \cup (CASE r.res = "raise" -> {"raised"}
               [] r.res = "none" -> C(~decided \/ ~ex, "missed")
               [] r.res = "layer" ->
                    C(r.offdiag = 0 /\ Len(r.blocks) = r.n /\ \A q \in 1..r.n : r.blocks[q] \in InvertibleBlocks, "not-clifford")
                    \cup C(r.offdiag = 0 /\ Len(r.blocks) = r.n /\ SoundLayer(r.blocks, r.P, GG), "unsound")
                    \cup C(r.circ = 1 /\ (\A i \in 1..Len(r.gates) : WellFormed(r.gates[i], r.n) /\ ~IsTwo(r.gates[i]))
                            /\ \A q \in 0..(r.n - 1) : /\ Body(ApplySeq(r.gates, XOn(q))) = ApplyBlocks(r.blocks, XOn(q))
                                                         /\ Body(ApplySeq(r.gates, ZOn(q))) = ApplyBlocks(r.blocks, ZOn(q)), "circuit")
               [] OTHER -> {"unknown-result"})

(***************************************************************************)
(* Tomography (C10, C11, C12).                                             *)
(*                                                                         *)
(* measure: the spec computes the exact (integer-scaled) statistics of a   *)
(* mixture sum_k w_k |psi_k><psi_k| measured after `ro` on the listed      *)
(* qubits: circuits[k] is the k-th component's full circuit (its own       *)
(* preparation followed by the common readout part).  The result is handed *)
(* to the real fitter by the harness.                                      *)
(***************************************************************************)
ZTabN(N) == [i \in 1..N |-> ZOn(i - 1)]
RECURSIVE SumThird(_)
SumThird(S) == IF S = {} THEN 0 ELSE LET t == CHOOSE t \in S : TRUE IN t[3] + SumThird(S \ {t})
MeasureOutput(r) ==
   LET T == UNION { LET ck == CountsOf(SignedSpan(ApplySeqTab(r.circuits[k], ZTabN(r.N))), r.N, r.weights[k])
                    IN  {<<k, b, ck[b]>> : b \in DOMAIN ck} : k \in 1..Len(r.circuits) }
       bs == {t[2] : t \in T}
   IN  {<<KeyChars(b, r.N), SumThird({t \in T : t[2] = b})>> : b \in bs}

(***************************************************************************)
(* fitter: expectation_values() of a StabilizerMeasurementFitter evaluated *)
(* on an ARBITRARY count dictionary.  ro = readout circuit on m qubits,    *)
(* list = measured qubits, counts = the dictionary, full = 1 when keys are *)
(* N-qubit Paulis; values = <<x, z, qiskit phase, num, den>> per entry.    *)
(* For every mask s the operator measured is U^dagger Z^s U = +-P and the  *)
(* value reported under the unsigned P must be +-Parity(counts, s).        *)
(***************************************************************************)
IdList(m) == [i \in 1..m |-> i - 1]
ExpectedEntries(r) ==
   LET tot == Total(r.counts, 1)
       lst == r.list
   IN  {LET p == PullBack(r.ro, ZMask(s))
            par == ParitySum(r.counts, lst, s, 1)
            key == IF r.full = 1 THEN Embed(Mk(XM(p), ZM(p), 0), lst) ELSE Body(p)
        IN  <<key, IF SG(p) = 1 THEN -par ELSE par, tot>> : s \in 1..(P2(r.m) - 1)}
       \cup {<<Identity, tot, tot>>}
JudgeFitter(r) ==
   LET exp == ExpectedEntries(r)
       keysE == {e[1] : e \in exp}
       got == {<<Mk(r.values[i][1], r.values[i][2], 0), r.values[i][4], r.values[i][5]>> : i \in 1..Len(r.values)}
   IN  C(Len(r.values) = P2(r.m) /\ Cardinality({g[1] : g \in got}) = P2(r.m), "entries")
       \cup C(\A i \in 1..Len(r.values) : r.values[i][3] = 0, "signed-key")
       \cup C({g[1] : g \in got} = keysE, "keys")
       \cup C(\A g \in got : \A e \in exp : g[1] = e[1] => g[2] * e[3] = e[2] * g[3], "value")

(***************************************************************************)
(* tomo: end to end on exact statistics.  comps[k] = <<weight, preparation *)
(* gates>> of the k-th component of the input state on N qubits; values    *)
(* as above.  Every reported value must be Tr(rho P) = sum_k w_k <P>_k / W *)
(* with P placed on the measured qubits in the order of the list.          *)
(* kind "full": all 4^m Paulis; kind "stab": exactly the sign-free group   *)
(* of the measured stabilizer `meas`.                                      *)
(***************************************************************************)
JudgeTomo(r) ==
   LET K == Len(r.comps)                           \* at most 4 components
       Z0 == ZTabN(r.N)
       G1 == SignedSpan(ApplySeqTab(r.comps[1][2], Z0))
       G2 == IF K >= 2 THEN SignedSpan(ApplySeqTab(r.comps[2][2], Z0)) ELSE {}
       G3 == IF K >= 3 THEN SignedSpan(ApplySeqTab(r.comps[3][2], Z0)) ELSE {}
       G4 == IF K >= 4 THEN SignedSpan(ApplySeqTab(r.comps[4][2], Z0)) ELSE {}
       w(k) == IF k <= K THEN r.comps[k][1] ELSE 0
       WT == w(1) + w(2) + w(3) + w(4)
       E(p) == w(1) * Exp(G1, p) + (IF K >= 2 THEN w(2) * Exp(G2, p) ELSE 0)
               + (IF K >= 3 THEN w(3) * Exp(G3, p) ELSE 0) + (IF K >= 4 THEN w(4) * Exp(G4, p) ELSE 0)
       keyN(i) == LET p == Mk(r.values[i][1], r.values[i][2], 0) IN IF r.full = 1 THEN p ELSE Embed(p, r.list)
       keys == {Mk(r.values[i][1], r.values[i][2], 0) : i \in 1..Len(r.values)}
       expectedKeys == IF r.kind = "full"
                       THEN {Mk(x, z, 0) : x \in 0..(P2(r.m) - 1), z \in 0..(P2(r.m) - 1)}
                       ELSE Span(r.meas)
   IN  C(K \in 1..4, "bad-input")
       \cup C(Len(r.values) = Cardinality(keys) /\ Len(r.values) = (IF r.kind = "full" THEN P2(2 * r.m) ELSE P2(r.m)), "entries")
       \cup C(\A i \in 1..Len(r.values) : r.values[i][3] = 0, "signed-key")
       \cup C(keys = (IF r.full = 1 THEN {Embed(p, r.list) : p \in expectedKeys} ELSE expectedKeys), "keys")
       \cup C(\A i \in 1..Len(r.values) : r.values[i][4] * WT = E(keyN(i)) * r.values[i][5], "value")

(* CircuitResult(counts, qubits): the stored (bit string, count) pairs are the marginal distribution in list order (C11).  *)
(* Outcomes that coincide on the listed qubits may be kept apart or merged: only the total per marginal outcome matters.   *)
RECURSIVE SumWhere(_, _, _, _)
SumWhere(pairs, key(_), m, i) == IF i > Len(pairs) THEN 0
                                 ELSE (IF key(pairs[i]) = m THEN pairs[i][2] ELSE 0) + SumWhere(pairs, key, m, i + 1)
JudgeMarginal(r) ==
   LET inKey(p) == IF r.haslist = 1 THEN Marginal(KeyToBits(p[1]), r.list) ELSE KeyToBits(p[1])
       stKey(p) == p[1]
       ms == {inKey(r.counts[i]) : i \in 1..Len(r.counts)} \cup {r.stored[i][1] : i \in 1..Len(r.stored)}
   IN  C(\A m \in ms : SumWhere(r.stored, stKey, m, 1) = SumWhere(r.counts, inKey, m, 1), "marginal")
       \cup C(r.nq = (IF r.haslist = 1 THEN Len(r.list) ELSE r.N), "num-qubits")

(* tableau: the spec runs a program on the tableau machine and hands back the tableau (used to obtain the group of a named state) *)
Output(r) == IF r.op = "measure" THEN MeasureOutput(r)
             ELSE IF r.op = "tableau" THEN ApplySeqTab(r.program, ZTabN(r.n)) ELSE {}

(***************************************************************************)
(* C08: no silent wrong answers.  request: one call of a circuit API with  *)
(* ARBITRARY operators (given: signed Pauli codes, valid or not).           *)
(* outcome = "raise" | "return"; gates = returned circuit; validate = what *)
(* Stabilizer.validate() answered (-1 if it could not be asked).           *)
(***************************************************************************)
JudgeRequest(r) ==
   LET valid == ValidStabilizer(r.n, r.given)
       z0 == [i \in 1..r.n |-> ZOn(i - 1)]
       wf == \A i \in 1..Len(r.gates) : WellFormed(r.gates[i], r.n)
   IN  C(r.validate = -1 \/ (r.validate = 1) = valid, "validate")
       \cup C(r.ctorv = -1 \/ (r.ctorv = 1) = valid, "validate")       \* the same check through Stabilizer(..., validate=True)
       \cup (IF r.outcome = "raise" THEN {}
             ELSE C(wf, "unknown-gate")
                  \cup (IF ~wf THEN {}
                        ELSE IF r.api = "prep"
                        THEN C(valid, "prepared-nonstabilizer")
                             \cup C(~valid \/ (\A i \in 1..Len(r.given) : r.given[i] \in SignedSpan(ApplySeqTab(r.gates, z0))), "wrong-state")
                        ELSE C(\A i \in 1..Len(r.given) : ZType(ApplySeq(r.gates, r.given[i])), "not-diagonal")))
(* synth: the synthesis helper synth_circuit_from_stabilizers(list, allow_redundant, allow_underconstrained, invert) called directly with ANY number  *)
(* of signed Paulis.  Whatever the flags: a returned circuit is correct for the given operators - the state it prepares (the state its inverse       *)
(* prepares, if invert) is stabilised by every one of them.  Raising is always acceptable.                                                          *)
JudgeSynthFlags(r) ==
   LET z0 == [i \in 1..r.n |-> ZOn(i - 1)]
       wf == \A i \in 1..Len(r.gates) : WellFormed(r.gates[i], r.n)
   IN  IF r.outcome = "raise" THEN {}
       ELSE C(wf, "unknown-gate")
            \cup (IF ~wf THEN {}
                  ELSE LET G == SignedSpan(ApplySeqTab(IF r.invert = 1 THEN Inverse(r.gates) ELSE r.gates, z0))
                       IN  C(\A i \in 1..Len(r.given) : r.given[i] \in G, "wrong-state"))
(* config: one entry point called with a (qubit count, connectivity name) pair, advertised or not *)
JudgeConfig(r) == C((r.outcome = "return") = IsSupported(r.n, r.name), "config-gate")
JudgeAvailable(r) == C({<<r.list[i][1], r.list[i][2]>> : i \in 1..Len(r.list)} = Supported /\ Len(r.list) = Cardinality(Supported), "available")

Judge(r) == CASE r.op = "classify" -> JudgeClassify(r)
              [] r.op = "request" -> JudgeRequest(r)
              [] r.op = "synthflags" -> JudgeSynthFlags(r)
              [] r.op = "config" -> JudgeConfig(r)
              [] r.op = "available" -> JudgeAvailable(r)
              [] r.op = "measure" -> {}
              [] r.op = "tableau" -> {}
              [] r.op = "fitter" -> JudgeFitter(r)
              [] r.op = "tomo" -> JudgeTomo(r)
              [] r.op = "marginal" -> JudgeMarginal(r)
              [] r.op = "denote" -> JudgeDenote(r)
              [] r.op = "pred" -> JudgePred(r)
              [] r.op = "layer" -> JudgeLayer(r)
              [] r.op = "graphop" -> JudgeGraphOp(r)
              [] r.op = "grouping" -> JudgeGrouping(r)
              [] r.op = "startidx" -> JudgeStartIdx(r)
              [] r.op = "f2" -> JudgeF2(r)
              [] r.op = "conn_graph" -> JudgeConnGraph(r)
              [] r.op = "mubfam" -> JudgeMubFam(r)
              [] OTHER -> JudgeExtra(r)
=============================================================================
