--------------------------------- MODULE Calls ---------------------------------
(***************************************************************************)
(* Declarative meaning of the library's pure operations, one judgement per *)
(* operation:  Judge(record) = set of clauses the recorded call violates.  *)
(***************************************************************************)
EXTENDS ClassIds, F2, TLC

C(cond, clause) == IF cond THEN {} ELSE {clause}

(* determine_lc_class(Stabilizer(gens)).id() = id;  LCClass<n>(id).id() = reid *)
JudgeClassify(r) ==
   IF ~ValidStabilizer(r.n, r.gens) THEN {"bad-input"}
   ELSE C(r.id \in 0..(NumClasses(r.n) - 1), "range")
        \cup C(IdOfGroup(r.n, Span(r.gens)) = r.id, "classify")
        \cup C(r.reid = r.id, "reid")

(***************************************************************************)
(* A MUB family as returned by get_mubs / get_mub_circuits / get_mub_info  *)
(* (C09): bases are lists of Pauli strings (chars), circuits gate lists,   *)
(* readouts the library's own readout circuits for the same bases.         *)
(***************************************************************************)
RECURSIVE SumSeq(_, _)
SumSeq(s, i) == IF i > Len(s) THEN 0 ELSE s[i] + SumSeq(s, i + 1)
MaxSeq(s) == IF Len(s) = 0 THEN 0 ELSE CHOOSE m \in {s[i] : i \in DOMAIN s} : \A i \in DOMAIN s : s[i] <= m
JudgeMubFam(r) ==
   LET M == P2(r.n) + 1
       B(i) == [j \in 1..Len(r.bases[i]) |-> FromChars(r.bases[i][j])]
       nb == Len(r.bases)
       spans == [i \in 1..nb |-> Span(B(i)) \ {Identity}]
       costs == [i \in 1..Len(r.circuits) |-> Cost(r.circuits[i])]
       depths == [i \in 1..Len(r.circuits) |-> Depth2q(r.circuits[i])]
       rcosts == [i \in 1..Len(r.readouts) |-> Cost(r.readouts[i])]
       union == UNION {spans[i] : i \in 1..nb}
   IN  C(nb = M /\ Len(r.circuits) = M, "count")
       \cup C(\A i \in 1..nb : Len(r.bases[i]) = r.n /\ (\A j \in 1..Len(r.bases[i]) : NumQubitsOfChars(r.bases[i][j]) = r.n)
                                 /\ ValidStabilizer(r.n, B(i)), "basis")
       \cup C(\A i \in 1..nb : \A j \in 1..nb : i < j => spans[i] \cap spans[j] = {}, "disjoint")
       \cup C(Cardinality(union) = P2(2 * r.n) - 1, "complete")
       \cup C(r.info.num = M, "info-num")
       \cup C(r.info.maxcost = MaxSeq(costs), "info-maxcost")
       \cup C(r.info.maxdepth = MaxSeq(depths), "info-maxdepth")
       \cup C(r.info.avg[1] * M = SumSeq(costs, 1) * r.info.avg[2], "info-avg")
       \cup C(Len(rcosts) = Len(costs) /\ \A i \in 1..Len(costs) : i <= Len(rcosts) => costs[i] <= rcosts[i], "worse-than-readout")

(* get_connectivity_graph(n, conn).get_edges() is the documented coupling graph (C02) *)
JudgeConnGraph(r) ==
   C(IsSupported(r.n, r.conn), "bad-input")
   \cup C({{r.edges[i][1], r.edges[i][2]} : i \in 1..Len(r.edges)} = Coupling(r.n, r.conn), "coupling-graph")
   \cup C(r.nv = r.n, "coupling-graph")
   \cup C(FromRows(r.n, r.rows) = FromEdgeSet(r.n, Coupling(r.n, r.conn)), "coupling-graph")

(***************************************************************************)
(* f2_algebra (C18): one record = the four routines called on one matrix.  *)
(* A: m x n input; R, piv: rref(A); rank; R2, M, Minv: rref_and_basis_     *)
(* change(A); ns: null_space(A) with shape / dtype kind; unchanged flag.   *)
(***************************************************************************)
JudgeF2(r) ==
   IF ~IsBinary(r.A, r.m, r.n) THEN {"bad-input"} ELSE
   LET Rx == Rref(r.A, r.n)
       px == PivotCols(Rx)
   IN  C(r.R = Rx, "rref")
       \cup C(r.piv = px, "pivots")
       \cup C(r.rank = Len(px), "rank")
       \cup C(r.R2 = Rx, "rref2")
       \cup C(IsBinary(r.M, r.m, r.m) /\ MatMul(r.M, r.A, r.n) = Rx, "basis-change")
       \cup C(IsBinary(r.M, r.m, r.m) /\ IsBinary(r.Minv, r.m, r.m) /\ MatMul(r.M, r.Minv, r.m) = IdentityMat(r.m), "inverse")
       \cup C(r.ns.ok = 1 /\ r.ns.shape = <<r.n - Len(px), r.n>> /\ r.ns.intdtype = 1, "well-typed")
       \cup C(r.ns.ok = 1 /\ IsKernelBasis(r.ns.rows, r.A, r.n), "kernel")
       \cup C(r.n > 10 \/ (r.ns.ok = 1 /\ RowSpace(r.ns.rows) = Kernel(r.A, r.n)), "kernel-exact")
       \cup C(r.unchanged = 1, "args-mutated")

Judge(r) == CASE r.op = "classify" -> JudgeClassify(r)
              [] r.op = "f2" -> JudgeF2(r)
              [] r.op = "conn_graph" -> JudgeConnGraph(r)
              [] r.op = "mubfam" -> JudgeMubFam(r)
              [] OTHER -> {"unknown-op"}
=============================================================================
