--------------------------------- MODULE Calls ---------------------------------
(***************************************************************************)
(* Declarative meaning of the library's pure operations, one judgement per *)
(* operation:  Judge(record) = set of clauses the recorded call violates.  *)
(***************************************************************************)
EXTENDS ClassIds, TLC

C(cond, clause) == IF cond THEN {} ELSE {clause}

(* determine_lc_class(Stabilizer(gens)).id() = id;  LCClass<n>(id).id() = reid *)
JudgeClassify(r) ==
   IF ~ValidStabilizer(r.n, r.gens) THEN {"bad-input"}
   ELSE C(r.id \in 0..(NumClasses(r.n) - 1), "range")
        \cup C(IdOfGroup(r.n, Span(r.gens)) = r.id, "classify")
        \cup C(r.reid = r.id, "reid")

Judge(r) == CASE r.op = "classify" -> JudgeClassify(r)
              [] OTHER -> {"unknown-op"}
=============================================================================
