---------------------------- MODULE PipelineFaults ----------------------------
(***************************************************************************)
(* Design-level model of the library's algorithm for ARBITRARY requests    *)
(* (C08 at the level of the design).  stabilizer_circuits.py never calls   *)
(* Stabilizer.validate(); what protects a caller who passes operators that *)
(* anticommute, are dependent or contradict each other is a chain of       *)
(* later steps.  This module models that chain as it is in the code:       *)
(*                                                                         *)
(*   CheckSupport  assert_connectivity_is_supported          -> raise      *)
(*   Classify      determine_lc_class: for junk input ANY id or an error   *)
(*   Lookup        table entry of that id                                  *)
(*   FindLayer     some sound layer, else RuntimeError       -> raise      *)
(*   Compose, Cancel                                                       *)
(*   readout:  Invert -> done                                              *)
(*   prep:     Synth  (synth_circuit_from_stabilizers raises for           *)
(*                     anticommuting / redundant / contradictory /         *)
(*                     underconstrained lists)                -> raise      *)
(*             Fix    (X on wrong-sign generators; raises when the groups  *)
(*                     differ modulo signs)                  -> raise/done *)
(*                                                                         *)
(* Requests are all N-lists of signed Paulis (Targets).  TLC checks, for   *)
(* every request, every id the classifier may answer on junk and every     *)
(* sound layer the search may return:                                      *)
(*   NoSilentWrong   - a delivered preparation circuit implies a valid     *)
(*                     request and prepares exactly its signed state; a    *)
(*                     delivered readout circuit diagonalises every given  *)
(*                     operator; both obey the coupling graph;             *)
(*   NoSpuriousRaise - an error implies an invalid or unsupported request; *)
(*   no deadlock     - every run ends in done or raised.                   *)
(***************************************************************************)
EXTENDS PipelineOps, Json
CONSTANTS Targets,      \* set of requests: N-tuples of signed Paulis
          ReqConns      \* connectivity names a caller may pass (Conn and unsupported ones)
VARIABLES phase, kind, reqconn, target, cid, entry, layer, circ
vars == <<phase, kind, reqconn, target, cid, entry, layer, circ>>

(* request sets: every N-list of signed Paulis (N = 2), or - the order of the operators and all but one sign being irrelevant for validity - *)
(* the non-decreasing lists of unsigned Paulis with either sign on the last one (N = 3)                                                    *)
SignedPaulis == {Mk(x, z, s) : x \in 0..(P2(N) - 1), z \in 0..(P2(N) - 1), s \in 0..1}
Bodies == {Mk(x, z, 0) : x \in 0..(P2(N) - 1), z \in 0..(P2(N) - 1)}
TargetsAll == [1..N -> SignedPaulis]
TargetsSorted == {[t EXCEPT ![N] = Mk(XM(t[N]), ZM(t[N]), s)] : t \in {u \in [1..N -> Bodies] : \A i \in 1..(N - 1) : u[i] <= u[i + 1]}, s \in 0..1}

Valid == ValidStabilizer(N, target)
ReqSupported == <<N, reqconn>> \in Supported

(* the two APIs share everything up to Cancel, so the API (kind) is chosen there: "any" until then *)
Init == /\ phase = "request" /\ kind = "any" /\ reqconn \in ReqConns /\ target \in Targets
        /\ cid = -1 /\ entry = <<>> /\ layer = <<>> /\ circ = <<>>
CheckSupport == /\ phase = "request" /\ phase' = (IF ReqSupported /\ reqconn = Conn THEN "classify" ELSE "raised")
                /\ UNCHANGED <<kind, reqconn, target, cid, entry, layer, circ>>
(* for a valid stabilizer the class is determined; for junk the code's answer is unspecified: any id, or an exception *)
Classify == /\ phase = "classify"
            /\ \E c \in (IF Valid THEN {IdOfGroup(N, Span(target))} ELSE (-1)..(NumClasses(N) - 1)) :
                  cid' = c /\ phase' = (IF c < 0 THEN "raised" ELSE "lookup")
            /\ UNCHANGED <<kind, reqconn, target, entry, layer, circ>>
Lookup == /\ phase = "lookup"
          /\ entry' = <<TableOf(N, Conn)[cid + 1], TableGatesOf(N, Conn)[cid + 1]>> /\ phase' = "layer"
          /\ UNCHANGED <<kind, reqconn, target, cid, layer, circ>>
SoundLayers == LET GG == Span(GraphGens(N, entry[1][1])) IN {L \in [Q -> 0..5] : SoundLG(L, target, GG)}
FindLayer == /\ phase = "layer"
             /\ LET SL == SoundLayers IN
                  IF SL = {} THEN layer' = layer /\ phase' = "raised"
                  ELSE \E L \in SL : layer' = L /\ phase' = "compose"
             /\ UNCHANGED <<kind, reqconn, target, cid, entry, circ>>
Compose == /\ phase = "compose" /\ circ' = entry[2] \o InvLayerGates(layer, 0) /\ phase' = "cancel"
           /\ UNCHANGED <<kind, reqconn, target, cid, entry, layer>>
Cancel == /\ phase = "cancel" /\ circ' = CancelHH(circ)
          /\ \/ kind' = "readout" /\ phase' = "invert"
             \/ kind' = "prep" /\ phase' = "synth"
          /\ UNCHANGED <<reqconn, target, cid, entry, layer>>
Invert == /\ phase = "invert" /\ circ' = Inverse(circ) /\ phase' = "done"
          /\ UNCHANGED <<kind, reqconn, target, cid, entry, layer>>
Synth == /\ phase = "synth" /\ phase' = (IF Valid THEN "fix" ELSE "raised")
         /\ UNCHANGED <<kind, reqconn, target, cid, entry, layer, circ>>
Fix == /\ phase = "fix"
       /\ LET tg == ApplySeqTab(circ, Z0)
              T == SignedSpan(target)
              same == \A i \in 1..N : tg[i] \in T \/ Neg(tg[i]) \in T
              xs == [i \in 1..N |-> IF Neg(tg[i]) \in T THEN <<<<"x", i - 1, -1>>>> ELSE <<>>]
              pre == LET RECURSIVE Cat(_)
                         Cat(i) == IF i > N THEN <<>> ELSE xs[i] \o Cat(i + 1)
                     IN Cat(1)
          IN IF same THEN circ' = pre \o circ /\ phase' = "done" ELSE circ' = circ /\ phase' = "raised"
       /\ UNCHANGED <<kind, reqconn, target, cid, entry, layer>>
Finished == phase \in {"done", "raised"} /\ UNCHANGED vars
Next == CheckSupport \/ Classify \/ Lookup \/ FindLayer \/ Compose \/ Cancel \/ Invert \/ Synth \/ Fix \/ Finished
Spec == Init /\ [][Next]_vars

Coupled == \A i \in 1..Len(circ) : WellFormed(circ[i], N) /\ (IsTwo(circ[i]) => {circ[i][2], circ[i][3]} \in Allowed)
NoSilentWrong == phase = "done" =>
                   /\ ReqSupported /\ Coupled
                   /\ (kind = "prep" => Valid /\ SignedSpan(ApplySeqTab(circ, Z0)) = SignedSpan(target))
                   /\ (kind = "readout" => \A k \in 1..N : ZType(ApplySeq(circ, target[k])))
NoSpuriousRaise == phase = "raised" => ~ReqSupported \/ ~Valid
(* spec -> code: the outcomes the design admits for each supported request (one line per terminal state; the harness checks that what the real code *)
(* does for the same request is one of them)                                                                                                          *)
DumpOutcome == (phase \in {"done", "raised"} /\ reqconn = Conn) => PrintT(ToJson([k |-> kind, t |-> target, o |-> phase]))    \* k = "any": raised before the APIs diverge
(* vacuity guards, evaluated by the harness from the counts TLC prints: some invalid request reaches the layer search, some reaches Synth *)
ReachedSynthInvalid == ~(phase = "synth" /\ ~Valid)
ReachedDoneReadoutInvalid == ~(phase = "done" /\ kind = "readout" /\ ~Valid)
=============================================================================
