--------------------------- MODULE CliffordMachine ---------------------------
(***************************************************************************)
(* The stabilizer tableau machine.  A quantum circuit over the documented  *)
(* Clifford vocabulary is a behaviour of this machine: one action per      *)
(* gate.  State:                                                           *)
(*   tab   the register's stabilizer tableau: a sequence of n signed       *)
(*         Paulis generating the stabilizer group of the current state     *)
(*   cost  two-qubit gates executed so far (cx, cz = 1, swap = 3)          *)
(*   lvl   per-qubit two-qubit level (ASAP two-qubit depth bookkeeping)    *)
(* The actions are parameterised by the register size and the coupling     *)
(* graph so that the model-checking modules (MC_Clifford, Optimality, ...) *)
(* and the trace specifications (TraceCircuit, ...) share them.            *)
(***************************************************************************)
EXTENDS Gates, Graphs

VARIABLES tab, cost, lvl
mvars == <<tab, cost, lvl>>

ZTab(n) == [i \in 1..n |-> ZOn(i - 1)]          \* tableau of |0...0>

(* the register is put into |0...0> / into a given stabilizer state *)
Reset(n)      == tab' = ZTab(n) /\ cost' = 0 /\ lvl' = Lvl0
Load(gens)    == tab' = gens    /\ cost' = 0 /\ lvl' = Lvl0

Coupled(allowed, g) == IsTwo(g) => {g[2], g[3]} \in allowed

(* effect of one gate, no guard *)
Effect(g) == /\ tab'  = ApplyTab(g, tab)
             /\ cost' = cost + Weight2q(g)
             /\ lvl'  = LvlAfter(g, lvl)

(* THE action: gate g on an n-qubit register whose coupling graph is `allowed` *)
GateStep(n, allowed, g) == /\ WellFormed(g, n)
                           /\ Coupled(allowed, g)
                           /\ Effect(g)

(* what a device without that coupling would need routing for; only used by *)
(* trace specifications to keep validating after recording the violation    *)
UncoupledGateStep(n, allowed, g) == /\ WellFormed(g, n)
                                    /\ ~Coupled(allowed, g)
                                    /\ Effect(g)

(* state predicates *)
Group      == SignedSpan(tab)
TabOK(n)   == ValidStabilizer(n, tab) /\ ~ContainsMinusIdentity(SignedSpan(tab))
Prepared(n, target) == SignedSpan(tab) = SignedSpan(target)
PreparedModSigns(n, target) == Span(tab) = Span(target)
Diagonal   == \A i \in DOMAIN tab : ZType(tab[i])       \* hence every group element is Z-type
AllDiagonal == \A p \in SignedSpan(tab) : ZType(p)
=============================================================================
