------------------------------- MODULE Pipeline -------------------------------
(***************************************************************************)
(* Design-level model of the library's algorithm (stabilizer_circuits.py)  *)
(* as actions:                                                             *)
(*   Build*  -> Request -> Classify -> Lookup -> FindLayer -> Compose ->   *)
(*   Cancel -> SignFix -> done                                             *)
(* Build is the tableau machine itself: every signed stabilizer state of   *)
(* N qubits is produced as a request.  FindLayer chooses ANY sound layer   *)
(* (the code takes the first one its kernel search meets); Cancel is the   *)
(* concrete H-H cancellation pass; SignFix prepends X on the qubits whose  *)
(* tableau generator has the wrong sign.  TLC checks the end-to-end        *)
(* contract (C01, C02, C04) for every request and EVERY admissible choice, *)
(* i.e. that the design is right no matter which layer the code picks,     *)
(* and that the pipeline never gets stuck (a sound layer exists; the sign  *)
(* repair by X gates is always possible).  Tables are the real ones        *)
(* (Exported.TableOf / TableGatesOf).                                      *)
(***************************************************************************)
EXTENDS PipelineOps
VARIABLES phase, tab, target, cid, entry, layer, circ
vars == <<phase, tab, target, cid, entry, layer, circ>>
Init == phase = "build" /\ tab = Z0 /\ target = <<>> /\ cid = -1 /\ entry = <<>> /\ layer = <<>> /\ circ = <<>>
Build == /\ phase = "build"
         /\ \E g \in {<<"h", q, -1>> : q \in Q} \cup {<<"s", q, -1>> : q \in Q} \cup {<<"cx", pr[1], pr[2]>> : pr \in {p \in Q \X Q : p[1] # p[2]}} :
               tab' = ApplyTab(g, tab)
         /\ UNCHANGED <<phase, target, cid, entry, layer, circ>>
Request == /\ phase = "build" /\ phase' = "classify" /\ target' = tab
           /\ UNCHANGED <<tab, cid, entry, layer, circ>>
Classify == /\ phase = "classify" /\ cid' = IdOfGroup(N, Span(target)) /\ phase' = "lookup"
            /\ UNCHANGED <<tab, target, entry, layer, circ>>
Lookup == /\ phase = "lookup" /\ cid >= 0
          /\ entry' = <<TableOf(N, Conn)[cid + 1], TableGatesOf(N, Conn)[cid + 1]>> /\ phase' = "layer"
          /\ UNCHANGED <<tab, target, cid, layer, circ>>
FindLayer == /\ phase = "layer"
             /\ \E L \in [Q -> 0..5] : SoundL(L, target, entry[1][1]) /\ layer' = L
             /\ phase' = "compose" /\ UNCHANGED <<tab, target, cid, entry, circ>>
Compose == /\ phase = "compose" /\ circ' = entry[2] \o InvLayerGates(layer, 0) /\ phase' = "cancel"
           /\ UNCHANGED <<tab, target, cid, entry, layer>>
Cancel == /\ phase = "cancel" /\ circ' = CancelHH(circ) /\ phase' = "fix"
          /\ UNCHANGED <<tab, target, cid, entry, layer>>
SignFix == /\ phase = "fix"
           /\ LET tg == ApplySeqTab(circ, Z0)             \* tableau generators U Z_i U^dagger
                  T == SignedSpan(target)
                  xs == [i \in 1..N |-> IF Neg(tg[i]) \in T THEN <<<<"x", i - 1, -1>>>> ELSE <<>>]
                  pre == LET RECURSIVE Cat(_)
                             Cat(i) == IF i > N THEN <<>> ELSE xs[i] \o Cat(i + 1)
                         IN Cat(1)
              IN circ' = pre \o circ
           /\ phase' = "done" /\ UNCHANGED <<tab, target, cid, entry, layer>>
Next == Build \/ Request \/ Classify \/ Lookup \/ FindLayer \/ Compose \/ Cancel \/ SignFix
Spec == Init /\ [][Next]_vars

(* the delivered circuit prepares exactly the requested signed state, obeys the coupling graph, and has the table cost / depth *)
Contract == phase = "done" =>
              /\ SignedSpan(ApplySeqTab(circ, Z0)) = SignedSpan(target)
              /\ \A i \in 1..Len(circ) : WellFormed(circ[i], N) /\ (IsTwo(circ[i]) => {circ[i][2], circ[i][3]} \in Allowed)
              /\ Cost(circ) = entry[1][2] /\ Depth2q(circ) = entry[1][3]
(* the pipeline cannot get stuck *)
NoStuck == /\ (phase = "lookup" => cid >= 0)
           /\ (phase = "layer" => \E L \in [Q -> 0..5] : SoundL(L, target, entry[1][1]))
           /\ (phase = "fix" => LET tg == ApplySeqTab(circ, Z0) T == SignedSpan(target) IN \A i \in 1..N : tg[i] \in T \/ Neg(tg[i]) \in T)
(* the cancellation pass preserves the signed action and the two-qubit skeleton *)
CancelSound == phase = "cancel" => /\ ApplySeqTab(CancelHH(circ), Z0) = ApplySeqTab(circ, Z0)
                                   /\ Cost(CancelHH(circ)) = Cost(circ) /\ Depth2q(CancelHH(circ)) = Depth2q(circ)
View == <<phase, IF phase = "build" THEN SignedSpan(tab) ELSE {}, target, cid, layer, circ>>
=============================================================================
