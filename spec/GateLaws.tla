------------------------------- MODULE GateLaws -------------------------------
(***************************************************************************)
(* Constant-level laws of the gate rules, checked by TLC over ALL signed   *)
(* Paulis on N qubits (evaluated once, in a one-state model).              *)
(***************************************************************************)
EXTENDS Gates, TLC
CONSTANT N
VARIABLE dummy
Init == dummy = 0
Next == UNCHANGED dummy
Q == 0..(N - 1)
All == {Mk(x, z, s) : x \in 0..(P2(N) - 1), z \in 0..(P2(N) - 1), s \in 0..1}
PP == {pr \in Q \X Q : pr[1] # pr[2]}
Laws == /\ \A p \in All, a \in Q :
              /\ GH(a, GH(a, p)) = p
              /\ GSdg(a, GS(a, p)) = p /\ GS(a, GSdg(a, p)) = p
              /\ GS(a, GS(a, p)) = GZ(a, p)
              /\ GH(a, GZ(a, GH(a, p))) = GX(a, p)
              /\ GY(a, p) = GX(a, GZ(a, p))                 \* Y = iXZ: same conjugation
              /\ GX(a, GX(a, p)) = p /\ GZ(a, GZ(a, p)) = p /\ GY(a, GY(a, p)) = p
              /\ Body(GX(a, p)) = Body(p) /\ Body(GZ(a, p)) = Body(p) /\ Body(GY(a, p)) = Body(p)
              /\ GX(a, p) = (IF Commute(p, XOn(a)) THEN p ELSE Neg(p))   \* Paulis flip signs of what anticommutes
              /\ GZ(a, p) = (IF Commute(p, ZOn(a)) THEN p ELSE Neg(p))
              /\ GS(a, GS(a, GS(a, p))) = GSdg(a, p)
              (* sx: X -> X, Z -> -Y, Y -> Z;  sx sx = x;  sxdg inverts sx *)
              /\ Apply(<<"sx", a, -1>>, Apply(<<"sx", a, -1>>, p)) = GX(a, p)
              /\ Apply(<<"sxdg", a, -1>>, Apply(<<"sx", a, -1>>, p)) = p
              /\ Apply(<<"sx", a, -1>>, XOn(a)) = XOn(a) /\ Apply(<<"sx", a, -1>>, ZOn(a)) = Mk(P2(a), P2(a), 1)
        /\ \A p \in All, pr \in PP :
              LET a == pr[1] b == pr[2] IN
              /\ GCX(a, b, GCX(a, b, p)) = p
              /\ GCZ(a, b, GCZ(a, b, p)) = p
              /\ GCZ(a, b, p) = GCZ(b, a, p)
              /\ GCX(a, b, p) = GH(b, GCZ(a, b, GH(b, p)))
              /\ GSW(a, b, p) = GCX(a, b, GCX(b, a, GCX(a, b, p)))
              /\ GSW(a, b, p) = GSW(b, a, p) /\ GSW(a, b, GSW(a, b, p)) = p
              (* cy is an involution, fixes Z_control and Y_target, maps X_control to X_c Y_t *)
              /\ Apply(<<"cy", a, b>>, Apply(<<"cy", a, b>>, p)) = p
              /\ Apply(<<"cy", a, b>>, ZOn(a)) = ZOn(a) /\ Apply(<<"cy", a, b>>, Mk(P2(b), P2(b), 0)) = Mk(P2(b), P2(b), 0)
              /\ Apply(<<"cy", a, b>>, XOn(a)) = Mk(P2(a) + P2(b), P2(b), 0)
        (* conjugation is a group automorphism: respects commutation and products *)
        /\ \A p \in All, q \in All :
              /\ \A a \in Q : Commute(GH(a, p), GH(a, q)) = Commute(p, q)
              /\ \A a \in Q : Commute(GS(a, p), GS(a, q)) = Commute(p, q)
              /\ Commute(p, q) => /\ \A a \in Q : GH(a, Mul(p, q)) = Mul(GH(a, p), GH(a, q))
                                  /\ \A a \in Q : GS(a, Mul(p, q)) = Mul(GS(a, p), GS(a, q))
                                  /\ \A pr \in PP : GCX(pr[1], pr[2], Mul(p, q)) = Mul(GCX(pr[1], pr[2], p), GCX(pr[1], pr[2], q))
                                  /\ \A pr \in PP : GCZ(pr[1], pr[2], Mul(p, q)) = Mul(GCZ(pr[1], pr[2], p), GCZ(pr[1], pr[2], q))
              /\ (~Commute(p, q)) <=> (Mul(p, q) = NotHermitian)
        /\ \A p \in All : Mul(p, p) = Identity /\ Mul(p, Identity) = p
        (* the six local classes: gate words realise the blocks; blocks are exactly the invertible 2x2 matrices *)
        /\ \A p \in All, a \in Q, c \in 0..5 : Body(ApplySeq(LocWord(c, a), p)) = Loc(c, a, p)
        /\ InvertibleBlocks = {b \in [1..4 -> 0..1] : (b[1] * b[4] + b[2] * b[3]) % 2 = 1}
        (* S commutes with CZ: the classes {I,S}, {H,SH}, {HSH,HS} are the cosets used by the 3-coset reduction *)
        /\ \A p \in All, pr \in PP : GCZ(pr[1], pr[2], GS(pr[1], p)) = GS(pr[1], GCZ(pr[1], pr[2], p))
        /\ \A p \in All, a \in Q : /\ Loc(2, a, Loc(1, a, p)) = Loc(4, a, p)
                                   /\ Loc(2, a, Loc(5, a, p)) = Loc(3, a, p)
                                   /\ Loc(2, a, Loc(0, a, p)) = Loc(2, a, p)
        (* inverse circuit really inverts *)
        /\ \A p \in All, pr \in PP :
              LET gs == <<<<"h", pr[1], -1>>, <<"s", pr[2], -1>>, <<"cx", pr[1], pr[2]>>, <<"sdg", pr[1], -1>>,
                          <<"y", pr[2], -1>>, <<"cz", pr[2], pr[1]>>, <<"swap", pr[1], pr[2]>>, <<"x", pr[1], -1>>>>
              IN  ApplySeq(Inverse(gs), ApplySeq(gs, p)) = p /\ PullBack(gs, ApplySeq(gs, p)) = p
=============================================================================
