------------------------------- MODULE Classes -------------------------------
(***************************************************************************)
(* Local-Clifford classes.  Single-qubit Cliffords permute {X,Y,Z} on one  *)
(* qubit and never change on which qubits an operator acts, so the set of  *)
(* supports of the group elements is constant on a class BY CONSTRUCTION.  *)
(* That it also separates classes for n <= 6 is model-checked (LCOrbits).  *)
(***************************************************************************)
EXTENDS Gates, Graphs
ClassKey(G) == {Supp(p) : p \in G}
KeyOfGens(gs) == ClassKey(Span(gs))
KeyOfGraph(n, g) == ClassKey(Span(GraphGens(n, g)))
(* number of sign-free stabilizer groups on n qubits: prod_{k=1..n} (2^k + 1) *)
RECURSIVE NumGroups(_)
NumGroups(n) == IF n = 0 THEN 1 ELSE (P2(n) + 1) * NumGroups(n - 1)
NumSignedStates(n) == P2(n) * NumGroups(n)
=============================================================================
