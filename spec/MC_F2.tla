--------------------------------- MODULE MC_F2 ---------------------------------
(* All binary matrices with at most MaxDim rows and columns as states of a builder machine (one state per matrix). *)
EXTENDS F2, TLC, Json
CONSTANTS MaxDim, DumpDim
VARIABLES m, n, A
Init == /\ m \in 1..MaxDim /\ n \in 1..MaxDim
        /\ A \in [1..m -> [1..n -> {0, 1}]]
Next == UNCHANGED <<m, n, A>>
R == Rref(A, n)
RrefIsRREF == IsRREF(R, n) /\ IsBinary(R, m, n)
RrefSameRowSpace == RowSpace(R) = RowSpace(A)
RankIsDimension == 2^RankOf(A, n) = Cardinality(RowSpace(A))
RankNullity == Cardinality(Kernel(A, n)) * Cardinality(RowSpace(A)) = 2^n
(* uniqueness of the RREF of a row space, on all matrices up to 3 x 3 (evaluated once) *)
Small == UNION {[1..a -> [1..b -> {0, 1}]] : a \in 1..2, b \in 1..3} \cup [1..3 -> [1..2 -> {0, 1}]]
ASSUME \A X \in Small : \A Y \in Small :
          (Len(X) = Len(Y) /\ Len(X[1]) = Len(Y[1]) /\ RowSpace(X) = RowSpace(Y)) => Rref(X, Len(X[1])) = Rref(Y, Len(Y[1]))
Dump == (m <= DumpDim /\ n <= DumpDim) => PrintT(ToJson([k |-> "M", A |-> A, R |-> R, piv |-> PivotCols(R), ker |-> Kernel(A, n)]))
=============================================================================
