---------------------------------- MODULE F2 ----------------------------------
(***************************************************************************)
(* Linear algebra over GF(2) (C18).  A matrix is a sequence of rows, a row *)
(* a sequence of 0/1.  Declarative meaning (row space, kernel, RREF        *)
(* predicate) and an executable Gauss-Jordan elimination `Rref`, which TLC *)
(* checks against the declarative meaning on all small matrices (MC_F2)    *)
(* so that it can serve as the oracle for large shapes (the reduced row    *)
(* echelon form of a row space is unique).                                 *)
(***************************************************************************)
EXTENDS Integers, Sequences, FiniteSets, Bitwise

NRows(A) == Len(A)
XorRow(a, b) == [j \in 1..Len(a) |-> (a[j] + b[j]) % 2]
ZeroRow(n) == [j \in 1..n |-> 0]
IsZeroRow(r) == \A j \in 1..Len(r) : r[j] = 0
MinOf(S) == CHOOSE x \in S : \A y \in S : x <= y
Lead(r) == IF IsZeroRow(r) THEN 0 ELSE MinOf({j \in 1..Len(r) : r[j] = 1})    \* 1-based column of the leading 1
IsBinary(A, m, n) == Len(A) = m /\ \A i \in 1..m : Len(A[i]) = n /\ \A j \in 1..n : A[i][j] \in {0, 1}

(* ------------------------------ executable elimination ------------------------------ *)
RECURSIVE Elim(_, _, _, _)
Elim(rows, h, k, n) ==
   IF h > Len(rows) \/ k > n THEN rows
   ELSE LET cand == {i \in h..Len(rows) : rows[i][k] = 1} IN
        IF cand = {} THEN Elim(rows, h, k + 1, n)
        ELSE LET i  == MinOf(cand)
                 sw == [rows EXCEPT ![h] = rows[i], ![i] = rows[h]]
                 cl == [j \in 1..Len(sw) |-> IF j # h /\ sw[j][k] = 1 THEN XorRow(sw[j], sw[h]) ELSE sw[j]]
             IN  Elim(cl, h + 1, k + 1, n)
Rref(A, n) == Elim(A, 1, 1, n)
(* 0-based pivot columns in row order *)
NonZeroRows(R) == {i \in 1..Len(R) : ~IsZeroRow(R[i])}
PivotCols(R) == [i \in 1..Cardinality(NonZeroRows(R)) |-> Lead(R[i]) - 1]
RankOf(A, n) == Cardinality(NonZeroRows(Rref(A, n)))

(* ------------------------------ declarative meaning ------------------------------ *)
IsRREF(R, n) ==
   /\ \A i \in 1..Len(R) : \A j \in 1..Len(R) : i < j /\ IsZeroRow(R[i]) => IsZeroRow(R[j])            \* zero rows last
   /\ \A i \in 1..Len(R) : \A j \in 1..Len(R) : i < j /\ ~IsZeroRow(R[j]) => Lead(R[i]) < Lead(R[j])    \* staircase
   /\ \A i \in 1..Len(R) : ~IsZeroRow(R[i]) => \A j \in 1..Len(R) : j # i => R[j][Lead(R[i])] = 0       \* pivot columns clean
(* vectors as bit masks (column j = bit j-1); only for small n *)
RECURSIVE MaskFrom(_, _)
MaskFrom(r, j) == IF j > Len(r) THEN 0 ELSE r[j] * 2^(j - 1) + MaskFrom(r, j + 1)
Mask(r) == MaskFrom(r, 1)
RECURSIVE SpanMasks(_, _, _)
SpanMasks(S, A, i) == IF i > Len(A) THEN S ELSE LET g == Mask(A[i]) IN SpanMasks(S \cup {e ^^ g : e \in S}, A, i + 1)
RowSpace(A) == SpanMasks({0}, A, 1)
RECURSIVE Par(_)
Par(x) == IF x = 0 THEN 0 ELSE ((x % 2) + Par(x \div 2)) % 2
Kernel(A, n) == {v \in 0..(2^n - 1) : \A i \in 1..Len(A) : Par(Mask(A[i]) & v) = 0}

(* ------------------------------ products, used for M*A = R and M*Minv = I ------------------------------ *)
RECURSIVE XorRows(_, _, _, _)
XorRows(sel, B, k, acc) == IF k > Len(sel) THEN acc
                           ELSE XorRows(sel, B, k + 1, IF sel[k] = 1 THEN XorRow(acc, B[k]) ELSE acc)
(* (M * B) over GF(2): row i of the product is the XOR of the rows of B selected by row i of M *)
MatMul(M, B, ncols) == [i \in 1..Len(M) |-> XorRows(M[i], B, 1, ZeroRow(ncols))]
IdentityMat(m) == [i \in 1..m |-> [j \in 1..m |-> IF i = j THEN 1 ELSE 0]]
RECURSIVE DotFrom(_, _, _)
DotFrom(r, v, j) == IF j > Len(r) THEN 0 ELSE (r[j] * v[j] + DotFrom(r, v, j + 1)) % 2
Dot(r, v) == DotFrom(r, v, 1)
(* the rows of K are a basis of the kernel of A (A has n columns): annihilated, independent, right number *)
IsKernelBasis(K, A, n) ==
   /\ \A i \in 1..Len(K) : Len(K[i]) = n /\ \A r \in 1..Len(A) : Dot(A[r], K[i]) = 0
   /\ RankOf(K, n) = Len(K)
   /\ Len(K) = n - RankOf(A, n)
=============================================================================
