------------------------------ MODULE Tomography ------------------------------
(***************************************************************************)
(* Measurement semantics on the tableau machine and the meaning of the     *)
(* tomography estimators (C10, C11, C12).                                  *)
(*                                                                         *)
(* Computational-basis measurement of a stabilizer state with signed group *)
(* F on N qubits: outcome b (bit q of b = result on qubit q) has           *)
(* probability 2^-r if it satisfies s.b = t for every Z-type element       *)
(* (-1)^t Z^s of F, and 0 otherwise (r = number of independent Z-type      *)
(* elements), i.e. the distribution is uniform on Outcomes(F, N).          *)
(*                                                                         *)
(* Conventions (tomography.py docstrings): count keys are little-endian    *)
(* bit strings - the character at position N-1-q is qubit q; blanks        *)
(* separate registers and are skipped.  Measuring the ordered list         *)
(* <<q_0, .., q_{m-1}>> makes q_i the i-th qubit of the reduced system.    *)
(***************************************************************************)
EXTENDS Gates, TLC

Outcomes(F, N) == {b \in 0..(P2(N) - 1) : \A p \in F : ZType(p) => Pop(ZM(p) & b) % 2 = SG(p)}
(* exact statistics scaled to integers: every possible outcome gets w * 2^N / |Outcomes| *)
CountsOf(F, N, w) == LET O == Outcomes(F, N) IN [b \in O |-> w * (P2(N) \div Cardinality(O))]
(* outcome b as a count key: character N-1-q (0-based from the left) is qubit q *)
KeyChars(b, N) == [i \in 1..N |-> IF Bit(b, N - i) = 1 THEN "1" ELSE "0"]
RECURSIVE BitsFrom(_, _, _)
BitsFrom(cs, i, acc) == IF i > Len(cs) THEN acc
                        ELSE IF cs[i] = " " THEN BitsFrom(cs, i + 1, acc)
                        ELSE BitsFrom(cs, i + 1, 2 * acc + (IF cs[i] = "1" THEN 1 ELSE 0))
KeyToBits(cs) == BitsFrom(cs, 1, 0)        \* leftmost character is the most significant qubit
RECURSIVE MargFrom(_, _, _)
MargFrom(b, list, i) == IF i > Len(list) THEN 0 ELSE Bit(b, list[i]) * P2(i - 1) + MargFrom(b, list, i + 1)
Marginal(b, list) == MargFrom(b, list, 1)   \* the i-th listed qubit becomes bit i of the marginal outcome
(* an m-qubit operator placed on the listed qubits of an N-qubit register *)
RECURSIVE EmbedMask(_, _, _)
EmbedMask(m, list, i) == IF i > Len(list) THEN 0 ELSE Bit(m, i - 1) * P2(list[i]) + EmbedMask(m, list, i + 1)
Embed(p, list) == Mk(EmbedMask(XM(p), list, 1), EmbedMask(ZM(p), list, 1), SG(p))
(* expectation value of the signed Hermitian Pauli p in the stabilizer state with signed group G *)
Exp(G, p) == IF p \in G THEN 1 ELSE IF Neg(p) \in G THEN -1 ELSE 0
(* sum_b (-1)^{|s & b|} c_b and sum_b c_b over a count dictionary given as a sequence of <<key chars, count>>, *)
(* after marginalising every key onto the measured list                                                        *)
RECURSIVE ParitySum(_, _, _, _)
ParitySum(counts, list, s, i) ==
   IF i > Len(counts) THEN 0
   ELSE (IF Pop(s & Marginal(KeyToBits(counts[i][1]), list)) % 2 = 1 THEN -counts[i][2] ELSE counts[i][2])
        + ParitySum(counts, list, s, i + 1)
RECURSIVE Total(_, _)
Total(counts, i) == IF i > Len(counts) THEN 0 ELSE counts[i][2] + Total(counts, i + 1)
=============================================================================
