------------------------------- MODULE LCOrbits -------------------------------
(***************************************************************************)
(* Classes are DEFINED as connected components: of graphs under local      *)
(* complementation (graph level) and of stabilizer groups under            *)
(* single-qubit H and S (group level; H and S generate the six local       *)
(* classes).  Reps is a set of graph ids claimed to be a system of         *)
(* distinct representatives.  TLC establishes:                             *)
(*   RepsDistinct   the representatives have pairwise different keys       *)
(*   KeyPreserved   every transition preserves the class key               *)
(*   and the number of distinct states: if it equals 2^(n(n-1)/2) (graph   *)
(*   level) resp. prod (2^k+1) (group level) then every graph / every      *)
(*   stabilizer group lies in the component of exactly one representative, *)
(*   so components = key classes and their number is |Reps|.              *)
(***************************************************************************)
EXTENDS Classes, TLC, Json
CONSTANTS N, Reps
Q == 0..(N - 1)
RepsDistinct == Cardinality({KeyOfGraph(N, g) : g \in Reps}) = Cardinality(Reps)
ASSUME RepsDistinct

(* ---------------- graph level ---------------- *)
VARIABLES gid, rep
gvars == <<gid, rep>>
GInit == \E g \in Reps : gid = g /\ rep = g
Complement(v) == gid' = LC(N, gid, v) /\ rep' = rep
GNext == \E v \in Q : Complement(v)
GSpec == GInit /\ [][GNext]_gvars
GKeyPreserved == [][KeyOfGraph(N, gid') = KeyOfGraph(N, gid)]_gvars
GKeyInv == KeyOfGraph(N, gid) = KeyOfGraph(N, rep)
Involution == \A v \in Q : LC(N, LC(N, gid, v), v) = gid
Simple == gid \in 0..(P2(NumPairs(N)) - 1)
(* LC at v changes only edges inside N(v) and complements all of them *)
Faithful == \A v \in Q : \A pr \in Pairs(N) :
               HasEdge(N, LC(N, gid, v), pr[1], pr[2]) =
                  (IF HasEdge(N, gid, v, pr[1]) /\ HasEdge(N, gid, v, pr[2])
                   THEN ~HasEdge(N, gid, pr[1], pr[2]) ELSE HasEdge(N, gid, pr[1], pr[2]))
GDump == PrintT(ToJson([k |-> "G", g |-> gid, rep |-> rep]))
GNextDump == \E v \in Q : Complement(v) /\ PrintT(ToJson([k |-> "L", g |-> gid, v |-> v, h |-> gid']))
GSpecDump == GInit /\ [][GNextDump]_gvars

=============================================================================
