------------------------------- MODULE Gates -------------------------------
(***************************************************************************)
(* Conjugation  p |-> U p U^dagger  of one signed Pauli by each gate of    *)
(* the documented vocabulary (i x y z h s sdg cx cz swap).  A gate is a    *)
(* triple <<name, a, b>>; b = -1 for single-qubit gates; for cx the first  *)
(* qubit is the control (Qiskit argument order).                           *)
(***************************************************************************)
EXTENDS Pauli

GI(a, p) == p
GX(a, p) == Mk(XM(p), ZM(p), (SG(p) + Bit(ZM(p), a)) % 2)
GZ(a, p) == Mk(XM(p), ZM(p), (SG(p) + Bit(XM(p), a)) % 2)
GY(a, p) == Mk(XM(p), ZM(p), (SG(p) + Bit(XM(p), a) + Bit(ZM(p), a)) % 2)
GH(a, p) == LET x == XM(p) z == ZM(p) xa == Bit(x, a) za == Bit(z, a)
            IN  Mk(SetBit(x, a, za), SetBit(z, a, xa), (SG(p) + xa * za) % 2)
GS(a, p) == LET x == XM(p) z == ZM(p) xa == Bit(x, a) za == Bit(z, a)
            IN  Mk(x, SetBit(z, a, (za + xa) % 2), (SG(p) + xa * za) % 2)
GSdg(a, p) == LET x == XM(p) z == ZM(p) xa == Bit(x, a) za == Bit(z, a)
              IN  Mk(x, SetBit(z, a, (za + xa) % 2), (SG(p) + xa * (1 - za)) % 2)
GCX(c, t, p) == LET x == XM(p) z == ZM(p)
                    xc == Bit(x, c) zc == Bit(z, c) xt == Bit(x, t) zt == Bit(z, t)
                IN  Mk(SetBit(x, t, (xt + xc) % 2), SetBit(z, c, (zc + zt) % 2),
                       (SG(p) + xc * zt * ((xt + zc + 1) % 2)) % 2)
GCZ(a, b, p) == LET x == XM(p) z == ZM(p)
                    xa == Bit(x, a) za == Bit(z, a) xb == Bit(x, b) zb == Bit(z, b)
                IN  Mk(x, SetBit(SetBit(z, a, (za + xb) % 2), b, (zb + xa) % 2),
                       (SG(p) + xa * xb * ((za + zb) % 2)) % 2)
GSW(a, b, p) == LET x == XM(p) z == ZM(p)
                    xa == Bit(x, a) za == Bit(z, a) xb == Bit(x, b) zb == Bit(z, b)
                IN  Mk(SetBit(SetBit(x, a, xb), b, xa), SetBit(SetBit(z, a, zb), b, za), SG(p))

(* the documented vocabulary plus three further Clifford gates a correct implementation might emit (sx = H S H, sxdg = H Sdg H up to phase, *)
(* cy = Sdg_t CX S_t); a cy counts as one native two-qubit gate                                                                          *)
OneQubitNames == {"id", "i", "x", "y", "z", "h", "s", "sdg", "sx", "sxdg"}
TwoQubitNames == {"cx", "cz", "swap", "cy"}
KnownNames    == OneQubitNames \cup TwoQubitNames
IsTwo(g) == g[1] \in TwoQubitNames
(* well-formed gate on an n-qubit register *)
WellFormed(g, n) == /\ g[1] \in KnownNames
                    /\ g[2] \in 0..(n - 1)
                    /\ IF IsTwo(g) THEN g[3] \in 0..(n - 1) /\ g[3] # g[2] ELSE g[3] = -1

(* anything that is not a well-formed gate of the vocabulary acts as the identity here; trace specs flag it (clause unknown-gate) *)
Applicable(g) == /\ g[1] \in KnownNames /\ g[2] \in 0..7
                 /\ (IsTwo(g) => g[3] \in 0..7 /\ g[3] # g[2])
Apply(g, p) == IF ~Applicable(g) THEN p ELSE
               CASE g[1] \in {"id", "i"} -> p
                 [] g[1] = "x"    -> GX(g[2], p)
                 [] g[1] = "y"    -> GY(g[2], p)
                 [] g[1] = "z"    -> GZ(g[2], p)
                 [] g[1] = "h"    -> GH(g[2], p)
                 [] g[1] = "s"    -> GS(g[2], p)
                 [] g[1] = "sdg"  -> GSdg(g[2], p)
                 [] g[1] = "sx"   -> GH(g[2], GS(g[2], GH(g[2], p)))
                 [] g[1] = "sxdg" -> GH(g[2], GSdg(g[2], GH(g[2], p)))
                 [] g[1] = "cy"   -> GS(g[3], GCX(g[2], g[3], GSdg(g[3], p)))
                 [] g[1] = "cx"   -> GCX(g[2], g[3], p)
                 [] g[1] = "cz"   -> GCZ(g[2], g[3], p)
                 [] g[1] = "swap" -> GSW(g[2], g[3], p)

InvGate(g) == CASE g[1] = "s" -> <<"sdg", g[2], g[3]>>
                [] g[1] = "sdg" -> <<"s", g[2], g[3]>>
                [] g[1] = "sx" -> <<"sxdg", g[2], g[3]>>
                [] g[1] = "sxdg" -> <<"sx", g[2], g[3]>>
                [] OTHER -> g
(* the inverse circuit: inverse gates in reverse order *)
Inverse(gs) == [i \in 1..Len(gs) |-> InvGate(gs[Len(gs) + 1 - i])]

(* push one Pauli / a tableau through a whole gate sequence (first gate first) *)
RECURSIVE ApplySeqFrom(_, _, _)
ApplySeqFrom(gs, i, p) == IF i > Len(gs) THEN p ELSE ApplySeqFrom(gs, i + 1, Apply(gs[i], p))
ApplySeq(gs, p) == ApplySeqFrom(gs, 1, p)
ApplyTab(g, tab) == [i \in DOMAIN tab |-> Apply(g, tab[i])]
ApplySeqTab(gs, tab) == [i \in DOMAIN tab |-> ApplySeq(gs, tab[i])]
(* U^dagger p U for the circuit U = gs *)
PullBack(gs, p) == ApplySeq(Inverse(gs), p)

(* cost model of the library: a native two-qubit gate costs 1, a swap 3 *)
Weight2q(g) == IF g[1] = "swap" THEN 3 ELSE IF IsTwo(g) THEN 1 ELSE 0
RECURSIVE CostFrom(_, _)
CostFrom(gs, i) == IF i > Len(gs) THEN 0 ELSE Weight2q(gs[i]) + CostFrom(gs, i + 1)
Cost(gs) == CostFrom(gs, 1)
(* as-soon-as-possible two-qubit depth; lvl is a function qubit -> level *)
LvlAfter(g, lvl) == IF IsTwo(g)
                    THEN LET L == Max2(lvl[g[2]], lvl[g[3]]) + Weight2q(g)
                         IN  [lvl EXCEPT ![g[2]] = L, ![g[3]] = L]
                    ELSE lvl
Lvl0 == [q \in 0..7 |-> 0]
MaxLvl(lvl) == Max2(Max2(Max2(lvl[0], lvl[1]), Max2(lvl[2], lvl[3])),
                    Max2(Max2(lvl[4], lvl[5]), Max2(lvl[6], lvl[7])))
RECURSIVE LvlFrom(_, _, _)
LvlFrom(gs, i, lvl) == IF i > Len(gs) THEN lvl ELSE LvlFrom(gs, i + 1, LvlAfter(gs[i], lvl))
Depth2q(gs) == MaxLvl(LvlFrom(gs, 1, Lvl0))

(***************************************************************************)
(* The six single-qubit Clifford classes modulo Paulis, as maps on the     *)
(* (x,z) pair of one qubit, numbered as in find_local_clifford_layer.py:   *)
(*  0 I  1 H  2 S  3 HS  4 SH  5 HSH.  A class c given as the 2x2 block    *)
(*  <<axx, axz, azx, azz>> acts x' = axx x + axz z, z' = azx x + azz z.    *)
(***************************************************************************)
LocBlocks == << <<1,0,0,1>>, <<0,1,1,0>>, <<1,0,1,1>>, <<1,1,1,0>>, <<0,1,1,1>>, <<1,1,0,1>> >>
InvertibleBlocks == {LocBlocks[i] : i \in 1..6}
ApplyBlock(blk, a, p) == LET xa == Bit(XM(p), a) za == Bit(ZM(p), a)
                         IN  Mk(SetBit(XM(p), a, (blk[1] * xa + blk[2] * za) % 2),
                                SetBit(ZM(p), a, (blk[3] * xa + blk[4] * za) % 2), 0)
(* sign-free local class action used by the orbit / optimality models *)
Loc(c, a, p) == ApplyBlock(LocBlocks[c + 1], a, Body(p))
(* a gate word realising class c on qubit q (the words local_clifford_layer_to_circuit documents) *)
LocWord(c, q) == CASE c = 0 -> <<>>
                   [] c = 1 -> <<<<"h", q, -1>>>>
                   [] c = 2 -> <<<<"s", q, -1>>>>
                   [] c = 3 -> <<<<"s", q, -1>>, <<"h", q, -1>>>>
                   [] c = 4 -> <<<<"h", q, -1>>, <<"s", q, -1>>>>
                   [] c = 5 -> <<<<"h", q, -1>>, <<"s", q, -1>>, <<"h", q, -1>>>>
=============================================================================
