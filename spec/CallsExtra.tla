------------------------------ MODULE CallsExtra ------------------------------
(***************************************************************************)
(* Contracts of library behaviour BEYOND the 19 listed properties          *)
(* (coverage backlog, DESIGN section 10): graph constructors, the          *)
(* stand-alone sign repair and stabilizer synthesis, state comparison,     *)
(* the circuit-text parser.  Same protocol: Judge(record) = failed clauses.*)
(***************************************************************************)
EXTENDS ClassIds, TLC, SequencesExt

CX(cond, clause) == IF cond THEN {} ELSE {clause}
Z0n(n) == [i \in 1..n |-> ZOn(i - 1)]

(* named graphs of graph.py's static constructors and mutators, as edge sets *)
StarEdges(n, c) == {{c, v} : v \in (0..(n - 1)) \ {c}}
PathEdges(path) == {{path[i], path[i + 1]} : i \in 1..(Len(path) - 1)} \ {{v} : v \in 0..7}
GraphBuildExpected(r) ==
   CASE r.kind = "empty"   -> {}
     [] r.kind = "full"    -> {{pr[1], pr[2]} : pr \in Pairs(r.n)}
     [] r.kind = "star"    -> StarEdges(r.n, r.a)
     [] r.kind = "linear"  -> Chain(r.n)
     [] r.kind = "cycle"   -> Chain(r.n) \cup {{0, r.n - 1}}
     [] r.kind = "pusteblume" -> {{0, 1}, {0, 2}, {0, 3}} \cup {{3, v} : v \in 4..(r.n - 1)}
     [] r.kind = "add_path" -> EdgeSet(r.n, r.src) \cup PathEdges(r.list)
     [] r.kind = "add_star" -> EdgeSet(r.n, r.src) \cup (IF Len(r.list) < 2 THEN {} ELSE {{r.list[1], r.list[i]} : i \in 2..Len(r.list)} \ {{v} : v \in 0..7})
     [] r.kind = "remove_all_edges_to" -> {e \in EdgeSet(r.n, r.src) : r.a \notin e}
     [] r.kind = "clear"   -> {}
     [] OTHER -> {{-1}}
(* graphbuild: result rows / edge list / edge count / has_edge answers after one constructor or mutator *)
JudgeGraphBuild(r) ==
   LET E == GraphBuildExpected(r)
       g == FromEdgeSet(r.n, E)
   IN  CX(r.rows = Rows(r.n, g), r.kind)
       \cup CX(r.count = Cardinality(E), "edge_count")
       \cup CX({{r.edges[i][1], r.edges[i][2]} : i \in 1..Len(r.edges)} = E /\ Len(r.edges) = Cardinality(E)
               /\ \A i \in 1..Len(r.edges) : r.edges[i][1] < r.edges[i][2], "get_edges")
       \cup CX(\A i \in 1..Len(r.edges) : \A j \in 1..Len(r.edges) : i < j =>
                  (r.edges[i][1] < r.edges[j][1] \/ (r.edges[i][1] = r.edges[j][1] /\ r.edges[i][2] < r.edges[j][2])), "get_edges-order")
       \cup CX(r.circ = 0 \/ Span(ApplySeqTab(r.gates, Z0n(r.n))) = Span(GraphGens(r.n, g)), "to_circuit")
       \cup CX(r.circ = 0 \/ SignedSpan(ApplySeqTab(r.gates, Z0n(r.n))) = SignedSpan(GraphGens(r.n, g)), "to_circuit-signs")

(* rotate: rotate_stabilizer_into_state(circuit, target).  circuit / target given as gate lists (target may also be signed codes). *)
JudgeRotate(r) ==
   LET cg == ApplySeqTab(r.circuit, Z0n(r.n))
       tg == IF r.tkind = "circuit" THEN ApplySeqTab(r.tprog, Z0n(r.n)) ELSE r.tcodes
       same == Span(cg) = Span(tg)
       k == Len(r.result) - Len(r.circuit)
   IN  IF r.tkind = "stab" /\ ~ValidStabilizer(r.n, r.tcodes) THEN {"bad-input"} ELSE
       IF r.outcome = "raise" THEN CX(~same, "raised-although-same-group")
       ELSE CX(same, "returned-although-different-group")
            \cup CX(~same \/ SignedSpan(ApplySeqTab(r.result, Z0n(r.n))) = SignedSpan(tg), "state")
            \cup CX(k >= 0 /\ (\A i \in 1..k : r.result[i][1] = "x" /\ r.result[i][3] = -1)
                    /\ (k < 0 \/ SubSeq(r.result, k + 1, Len(r.result)) = r.circuit), "only-x-prepended")
            \cup CX(r.inplace = 1 \/ r.inputafter = r.circuit, "input-modified")
            \cup CX(r.inplace = 0 \/ r.inputafter = r.result, "inplace-not-in-place")

(* synth: synth_circuit_from_stabilizers(list of signed Pauli codes) *)
JudgeSynth(r) ==
   LET valid == ValidStabilizer(r.n, r.codes)
   IN  IF r.outcome = "raise" THEN CX(~valid, "raised-for-valid")
       ELSE CX(valid, "returned-for-invalid")
            \cup CX(~valid \/ SignedSpan(ApplySeqTab(r.gates, Z0n(r.n))) = SignedSpan(r.codes), "state")

(* same: do_prepare_same_state(c1, c2) = the two programs prepare the same signed group *)
JudgeSame(r) ==
   CX((r.answer = 1) = (SignedSpan(ApplySeqTab(r.c1, Z0n(r.n))) = SignedSpan(ApplySeqTab(r.c2, Z0n(r.n)))), "same-state")

(* parse: parse_circuit(n, text) against the documented grammar (tokens given by the independent parser of the harness) *)
JudgeParse(r) ==
   IF r.outcome = "raise" THEN CX(r.wellformed = 0, "raised-for-wellformed")
   ELSE CX(r.wellformed = 0 \/ r.gates = r.expected, "parse")
        \cup CX(r.wellformed = 1, "silently-accepted")

(* zpauli: z_pauli_from_bitstring(n, b) for 0 <= b < 2^n is the n-qubit Pauli with Z exactly on the set bits of b (little-endian),  *)
(* no X part, phase 0: in the code of Pauli.tla that is 256 * b.                                                                       *)
JudgeZPauli(r) ==
   IF r.outcome = "raise" THEN {"zpauli-raised"}
   ELSE CX(r.nq = r.n, "zpauli-width") \cup CX(r.code = 256 * r.b, "zpauli-support") \cup CX(r.phase = 0, "zpauli-phase")

(* pairidx: linear_index_from_n_choose_2(n, i, j) is the rank of (i, j) among the pairs i < j of 0..n-1 in lexicographic order, and    *)
(* linear_index_to_n_choose2_to is its inverse.                                                                                        *)
LexLess(p, q) == p[1] < q[1] \/ (p[1] = q[1] /\ p[2] < q[2])
PairRank(n, i, j) == Cardinality({p \in Pairs(n) : LexLess(p, <<i, j>>)})
JudgePairIdx(r) ==
   IF r.outcome = "raise" THEN {"pairidx-raised"}
   ELSE CX(r.idx = PairRank(r.n, r.i, r.j), "pairidx-rank") \cup CX(r.back = <<r.i, r.j>>, "pairidx-inverse")

(* repr: Repr(list of integer lists): every entry becomes a sorted tuple; groups[k] holds the tuples of length k in insertion order   *)
(* (empty groups up to the largest length present); flatten concatenates group by group.                                              *)
SortedTuple(t) == SortSeq(t, LAMBDA a, b : a < b)
MaxLen(L) == IF Len(L) = 0 THEN 0 ELSE CHOOSE m \in {Len(L[i]) : i \in 1..Len(L)} : \A i \in 1..Len(L) : Len(L[i]) <= m
ReprGroups(L) == [k \in 1..MaxLen(L) |-> LET idx == SelectSeq([i \in 1..Len(L) |-> i], LAMBDA i : Len(L[i]) = k)
                                          IN [m \in 1..Len(idx) |-> SortedTuple(L[idx[m]])]]
JudgeRepr(r) ==
   IF r.outcome = "raise" THEN {"repr-raised"}
   ELSE LET G == ReprGroups(r.lists)
        IN CX(r.groups = G, "repr-groups")
           \cup CX(r.flat = FlattenSeq(FlattenSeq(G)), "repr-flatten")
           \cup CX(r.selfeq = 1, "repr-eq")

JudgeExtra(r) == CASE r.op = "graphbuild" -> JudgeGraphBuild(r)
                   [] r.op = "rotate" -> JudgeRotate(r)
                   [] r.op = "synth" -> JudgeSynth(r)
                   [] r.op = "same" -> JudgeSame(r)
                   [] r.op = "parse" -> JudgeParse(r)
                   [] r.op = "zpauli" -> JudgeZPauli(r)
                   [] r.op = "pairidx" -> JudgePairIdx(r)
                   [] r.op = "repr" -> JudgeRepr(r)
                   [] OTHER -> {"unknown-op"}
=============================================================================
