----------------------------- MODULE MC_Clifford -----------------------------
(***************************************************************************)
(* Exhaustive exploration of the tableau machine for a fixed register size *)
(* and coupling graph.  With VIEW GroupView the distinct states are the    *)
(* signed stabilizer groups; their number must be 2^n prod (2^k + 1).      *)
(* Also used to enumerate inputs for the implementation (the Dump ops).          *)
(***************************************************************************)
EXTENDS CliffordMachine, TLC, Json
CONSTANTS N, Conn, Names1, Names2, EmitAt
VARIABLES hist
vars == <<tab, cost, lvl, hist>>
Q == 0..(N - 1)
Allowed == Coupling(N, Conn)
AllGates == {<<nm, q, -1>> : nm \in Names1, q \in Q}
            \cup {g \in {<<nm, pr[1], pr[2]>> : nm \in Names2, pr \in Q \X Q} : g[2] # g[3]}
Init == tab = ZTab(N) /\ cost = 0 /\ lvl = Lvl0 /\ hist = <<>>
Next == \E g \in AllGates : GateStep(N, Allowed, g) /\ hist' = Append(hist, g)
Spec == Init /\ [][Next]_vars
GroupView == SignedSpan(tab)
SignFreeView == Span(tab)

TypeOK == TabOK(N)
(* closure: the signed span is a group of commuting Hermitian Paulis *)
Closed == LET G == SignedSpan(tab) IN
          /\ Cardinality(G) = P2(N)
          /\ \A p \in G : \A q \in G : Mul(p, q) \in G
(* bookkeeping agrees with the declarative definitions over the history *)
Bookkeeping == cost = Cost(hist) /\ MaxLvl(lvl) = Depth2q(hist) /\ tab = ApplySeqTab(hist, ZTab(N))
(* one JSON line per distinct state (TLC evaluates invariants on new states only) *)
DumpState == PrintT(ToJson([k |-> "S", tab |-> tab, hist |-> hist]))
(* transitions: printed from inside the action in BFS mode *)
NextDump == \E g \in AllGates :
               /\ GateStep(N, Allowed, g) /\ hist' = Append(hist, g)
               /\ PrintT(ToJson([k |-> "T", src |-> tab, g |-> g, dst |-> tab']))
SpecDump == Init /\ [][NextDump]_vars
(* simulation mode (-simulate -depth D): emit the state reached at level EmitAt together with its      *)
(* history; the history is the input program, tab is the specification's own result for it            *)
EmitBehaviour == (TLCGet("level") = EmitAt) => PrintT(ToJson([k |-> "B", hist |-> hist, tab |-> tab]))
=============================================================================
