------------------------------ MODULE CacheAlias ------------------------------
(***************************************************************************)
(* C13: results are a function of the arguments only.                      *)
(*                                                                         *)
(* Abstract state of the library across calls:                             *)
(*   loaded  lookup files currently in the module-level caches             *)
(*   dirty   cached fields <<file, field>> whose content differs from the  *)
(*           content of the shipped file (someone mutated them)            *)
(*   held    result handles the caller still holds; each remembers which   *)
(*           cached fields are mutably reachable from it (its aliases)     *)
(*   pure    did the last call return what a fresh interpreter returns     *)
(* Actions: Call(api, cfg) (cold: loads the file, warm: reuses it),        *)
(* Mutate(h) (the caller mutates everything reachable from handle h),      *)
(* Drop (the caller forgets its oldest handle).                            *)
(* Which cached fields a result aliases is a CONSTANT extracted from the   *)
(* running code (object identity reachability); TLC decides invariant Pure *)
(* under those facts, and the complete state graph / long random walks are *)
(* replayed into the real library with the projected state compared after  *)
(* every step.                                                             *)
(***************************************************************************)
EXTENDS Integers, Sequences, FiniteSets, TLC, Json
CONSTANTS Cfgs, Apis, MaxHeld, MaxLen,
          FileKind(_),        \* api -> "stab" | "mub" | "none": which lookup file the api consults
          Reads(_),           \* api -> set of cached fields its result is computed from
          Shares(_)           \* api -> set of cached fields mutably reachable from its result  (EXTRACTED)
VARIABLES loaded, dirty, held, pure, hist,
          argver     \* the caller keeps its own argument objects (a stabilizer, a circuit) and may edit them between calls: version 0 / 1
vars == <<loaded, dirty, held, pure, hist, argver>>
FileOf(api, c) == <<FileKind(api), c>>
Init == loaded = {} /\ dirty = {} /\ held = <<>> /\ pure = TRUE /\ hist = <<>> /\ argver = 0
Call(api, c) ==
   /\ Len(held) < MaxHeld /\ Len(hist) < MaxLen
   /\ LET f == FileOf(api, c) IN
      /\ loaded' = IF f[1] = "none" THEN loaded ELSE loaded \cup {f}
      /\ pure' = ({<<f, fld>> : fld \in Reads(api)} \cap dirty = {})
      /\ held' = Append(held, [api |-> api, cfg |-> c, file |-> f, shares |-> Shares(api)])
   /\ hist' = Append(hist, <<"call", api, c>>)
   /\ UNCHANGED <<dirty, argver>>
Mutate(h) ==
   /\ h \in DOMAIN held /\ Len(hist) < MaxLen
   /\ dirty' = dirty \cup {<<held[h].file, fld>> : fld \in held[h].shares}
   /\ hist' = Append(hist, <<"mutate", h, "">>)
   /\ UNCHANGED <<loaded, held, pure, argver>>
Drop ==
   /\ held # <<>> /\ Len(hist) < MaxLen
   /\ held' = Tail(held)
   /\ hist' = Append(hist, <<"drop", 0, "">>)
   /\ UNCHANGED <<loaded, dirty, pure, argver>>
(* the caller edits ITS OWN argument objects in place (they stay valid arguments); later calls must answer for the new value *)
EditArg ==
   /\ Len(hist) < MaxLen
   /\ argver' = 1 - argver
   /\ hist' = Append(hist, <<"editarg", 0, "">>)
   /\ UNCHANGED <<loaded, dirty, held, pure>>
Next == (\E api \in Apis, c \in Cfgs : Call(api, c)) \/ (\E h \in 1..MaxHeld : Mutate(h)) \/ Drop \/ EditArg
Spec == Init /\ [][Next]_vars
(* THE property: every call returns the pristine result *)
Pure == pure
(* handles that alias nothing are indistinguishable *)
View == <<loaded, dirty, [i \in DOMAIN held |-> IF held[i].shares = {} THEN <<>> ELSE <<held[i].file, held[i].shares>>], pure, argver>>
(* labelled transitions of the complete state graph (BFS; each transition evaluated once) *)
NextDump == \/ \E api \in Apis, c \in Cfgs : Call(api, c) /\ PrintT(ToJson([k |-> "T", hist |-> hist', loaded |-> loaded', dirty |-> dirty', pure |-> pure']))
            \/ \E h \in 1..MaxHeld : Mutate(h) /\ PrintT(ToJson([k |-> "T", hist |-> hist', loaded |-> loaded', dirty |-> dirty', pure |-> pure']))
            \/ Drop /\ PrintT(ToJson([k |-> "T", hist |-> hist', loaded |-> loaded', dirty |-> dirty', pure |-> pure']))
            \/ EditArg /\ PrintT(ToJson([k |-> "T", hist |-> hist', loaded |-> loaded', dirty |-> dirty', pure |-> pure']))
SpecDump == Init /\ [][NextDump]_vars
(* simulation: emit the behaviour when it has reached its final length *)
EmitWalk == (Len(hist) = MaxLen) => PrintT(ToJson([k |-> "W", hist |-> hist, loaded |-> loaded, dirty |-> dirty, pure |-> pure]))
=============================================================================
