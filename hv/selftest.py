"""Binding demonstrations (DESIGN section 9): accepted traces are corrupted in one field / one event and must then be rejected
with the expected clause; internal events removed -> still accepted.   /venv/bin/python -m hv.selftest"""
import copy
import sys

from . import core, impl, workers, sweep


def main():
    L = impl.lib()
    files = {"Exported.tla": core.exported_module(L)}
    codes = impl.graph_gens(4, 0b101011)                      # a connected 4-qubit graph state
    codes = [codes[0] + impl.W2, codes[1], codes[2] + impl.W2, codes[3]]     # two minus signs
    cases = []
    for api in ("prep", "readout"):
        job = {"api": api, "n": 4, "conn": "linear", "codes": codes, "fmt": "matrices", "program": None, "alt": [c % impl.W2 for c in codes] if api == "readout" else None}
        r = workers.api_call(job)
        t = sweep.to_trace(job, r)
        cases.append((f"{api}: recorded trace", t, set()))
        two = [i for i, g in enumerate(t["gates"]) if g[2] >= 0]
        assert two, "test input has no two-qubit gate"
        c = copy.deepcopy(t); g = c["gates"][two[0]]; c["gates"][two[0]] = [g[0], g[1], (g[1] + 2) % 4]     # distance 2 on the chain 0-1-2-3
        cases.append((f"{api}: one two-qubit gate retargeted to an uncoupled pair", c, {"uncoupled"}))
        c = copy.deepcopy(t); del c["gates"][two[-1]]
        cases.append((f"{api}: one two-qubit gate dropped", c, {"state", "cost"} if api == "prep" else {"diag", "cost"}))
        c = copy.deepcopy(t); c["target"][1] ^= impl.W2
        cases.append((f"{api}: one target sign flipped", c, {"state"} if api == "prep" else set()))
        c = copy.deepcopy(t); c["cls"] = (c["cls"] + 1) % 18
        cases.append((f"{api}: logged class id changed", c, {"classify"}))
        c = copy.deepcopy(t); c["cost"] += 1
        cases.append((f"{api}: logged lookup cost changed", c, {"lookup"}))
        c = copy.deepcopy(t); c["layer"][0] = [1, 1, 1, 1]
        cases.append((f"{api}: logged layer made singular", c, {"layer"}))
        c = copy.deepcopy(t); c["gates"].insert(0, ["ccx", 0, 1])
        cases.append((f"{api}: unknown gate inserted", c, {"unknown-gate"}))
        c = copy.deepcopy(t); c.update(cls=-1, graph=-1, cost=-1, depth=-1, layer=[])
        cases.append((f"{api}: all internal events removed (wrappers absent)", c, set()))
        if api == "readout":
            c = copy.deepcopy(t); c["alt"] = c["alt"][:-1]
            cases.append(("readout: circuit for other signs differs", c, {"sign-dep"}))
    verdicts, _ = core.validate_traces("TraceCircuit", [c for _, c, _ in cases], files=files, jvms=1)
    ok = True
    for (name, _, expect), (cl, _) in zip(cases, verdicts):
        good = (cl == set()) if not expect else expect <= cl
        ok = ok and good
        print(("ok   " if good else "FAIL ") + f"{name}: clauses {sorted(cl)} (expected {sorted(expect) or 'none'})")
    print("selftest", "passed" if ok else "FAILED")
    sys.exit(0 if ok else 1)


if __name__ == "__main__":
    main()
