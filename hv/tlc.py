"""Running TLC: batch runner, stdout parser, statistics.

Every run happens in a private scratch directory that contains symlinks to
spec/*.tla plus whatever generated modules / cfg the caller supplies, so that
many TLC JVMs can run side by side.
"""
import json
import os
import re
import shutil
import subprocess
import tempfile
import time
from concurrent.futures import ThreadPoolExecutor

HERE = os.path.dirname(os.path.abspath(__file__))
SPEC_DIR = os.path.join(os.path.dirname(HERE), "spec")
JAR = "/opt/veriftools/tla/tla2tools.jar"
DEPS = "/opt/veriftools/tla/CommunityModules-deps.jar"


class MachineryError(Exception):
    """Something in the verification machinery itself failed (exit code 2)."""


class TLCResult:
    def __init__(self, out, wall, rc):
        self.out = out
        self.wall = wall
        self.rc = rc
        self.lines = out.splitlines()
        self.generated = self.distinct = 0
        self.diameter = None
        m = None
        for m in re.finditer(r"(\d+) states generated, (\d+) distinct states found", out):
            pass
        if m:
            self.generated, self.distinct = int(m.group(1)), int(m.group(2))
        m = re.search(r"The depth of the complete state graph search is (\d+)", out)
        if m:
            self.diameter = int(m.group(1))
        self.completed = "Model checking completed. No error has been found." in out
        self.sim_done = "Finished in" in out
        self.violated_invariant = None
        m = re.search(r"Invariant (\S+) is violated", out)
        if m:
            self.violated_invariant = m.group(1)
        m = re.search(r"Action property (\S+) is violated", out)
        if m:
            self.violated_invariant = m.group(1)
        if "Temporal properties were violated" in out:
            self.violated_invariant = self.violated_invariant or "temporal"
        self.error = None
        if not self.completed:
            errs = [l for l in self.lines if l.startswith("Error:")]
            if errs:
                self.error = " | ".join(errs[:4])

    # ---- parsing of printed values -------------------------------------------------
    def json_lines(self):
        """Values printed with PrintT(ToJson(..)): one JSON string literal per line."""
        res = []
        for l in self.lines:
            if l.startswith('"{') or l.startswith('"['):
                try:
                    res.append(json.loads(json.loads(l)))
                except Exception as e:  # garbled (interleaved) line
                    raise MachineryError(f"unparsable TLC output line: {l[:200]!r}: {e}")
        return res

    def tuples(self, tag):
        """Lines printed with PrintT(<<"tag", ...>>); returns the raw text after the tag."""
        pre = f'<<"{tag}", '
        return [l[len(pre):-2] for l in self.lines if l.startswith(pre) and l.endswith(">>")]

    def coverage(self):
        """Per-action counts from -coverage output: {action name: (distinct, total)}."""
        cov = {}
        for m in re.finditer(r"<(\w+) line \d+, col \d+ to line \d+, col \d+ of module (\w+)>: (\d+):(\d+)", self.out):
            name = m.group(1)
            d, t = int(m.group(3)), int(m.group(4))
            cov[name] = (max(d, cov.get(name, (0, 0))[0]), max(t, cov.get(name, (0, 0))[1]))
        return cov


def make_workdir(files=None):
    d = tempfile.mkdtemp(prefix="hv-tlc-")
    for f in os.listdir(SPEC_DIR):
        if f.endswith(".tla"):
            os.symlink(os.path.join(SPEC_DIR, f), os.path.join(d, f))
    for name, text in (files or {}).items():
        p = os.path.join(d, name)
        if os.path.islink(p):
            os.unlink(p)
        with open(p, "w") as fh:
            fh.write(text)
    return d


def run_tlc(module, cfg_text, *, files=None, workers=1, env=None, simulate=None, depth=None,
            seed=None, timeout=3600, coverage=False, heap="3g", keep=False, deadlock=False, extra=()):
    """Run TLC on spec/<module>.tla with the given cfg text. Returns TLCResult."""
    files = dict(files or {})
    files["run.cfg"] = cfg_text
    d = make_workdir(files)
    cmd = ["java", "-XX:+UseParallelGC", "-XX:ParallelGCThreads=2", f"-Xmx{heap}", "-Xss16m",
           "-cp", f"{JAR}:{DEPS}", "tlc2.TLC", "-workers", str(workers), "-metadir", os.path.join(d, "meta"),
           "-noGenerateSpecTE", "-config", "run.cfg"]
    if not deadlock:
        cmd += ["-deadlock"]  # "-deadlock" DISABLES deadlock checking in TLC
    if simulate:
        cmd += ["-simulate", simulate]
    if depth:
        cmd += ["-depth", str(depth)]
    if seed is not None:
        cmd += ["-seed", str(seed)]
    if coverage:
        cmd += ["-coverage", "1"]
    cmd += list(extra) + [module + ".tla"]
    e = dict(os.environ)
    e.update(env or {})
    t0 = time.time()
    try:
        p = subprocess.run(cmd, cwd=d, env=e, stdout=subprocess.PIPE, stderr=subprocess.STDOUT, timeout=timeout)
        out, rc = p.stdout.decode("utf-8", "replace"), p.returncode
    except subprocess.TimeoutExpired as ex:
        out, rc = (ex.stdout or b"").decode("utf-8", "replace") + "\nTIMEOUT\n", 124
    res = TLCResult(out, time.time() - t0, rc)
    res.workdir = d
    if not keep:
        shutil.rmtree(d, ignore_errors=True)
    return res


def run_many(jobs, parallel=8):
    """jobs: list of (args, kwargs) for run_tlc; run up to `parallel` JVMs side by side."""
    with ThreadPoolExecutor(max_workers=parallel) as ex:
        futs = [ex.submit(run_tlc, *a, **k) for a, k in jobs]
        return [f.result() for f in futs]


def require_ok(res, what):
    if res.violated_invariant:
        return
    if res.rc == 124:
        raise MachineryError(f"TLC timed out: {what}")
    if not (res.completed or res.sim_done) or res.error:
        tail = "\n".join(res.lines[-25:])
        raise MachineryError(f"TLC failed ({what}): {res.error}\n{tail}")


def cfg(spec=None, init=None, next_=None, constants=None, invariants=(), properties=(), view=None,
        constraint=None, postcondition=None, deadlock=None):
    lines = []
    if spec:
        lines.append(f"SPECIFICATION {spec}")
    if init:
        lines.append(f"INIT {init}")
    if next_:
        lines.append(f"NEXT {next_}")
    if constants:
        lines.append("CONSTANTS")
        for k, v in constants.items():
            lines.append(f"  {k} {v}" if v.startswith("<-") else f"  {k} = {v}")
    for i in invariants:
        lines.append(f"INVARIANT {i}")
    for p in properties:
        lines.append(f"PROPERTY {p}")
    if view:
        lines.append(f"VIEW {view}")
    if constraint:
        lines.append(f"CONSTRAINT {constraint}")
    if postcondition:
        lines.append(f"POSTCONDITION {postcondition}")
    if deadlock is not None:
        lines.append(f"CHECK_DEADLOCK {'TRUE' if deadlock else 'FALSE'}")
    return "\n".join(lines) + "\n"


def tla_str(s):
    return '"' + s.replace("\\", "\\\\").replace('"', '\\"') + '"'


def tla_set(items):
    return "{" + ", ".join(items) + "}"


def tla_seq(items):
    return "<<" + ", ".join(items) + ">>"


def to_tla(v):
    """Python value -> TLA+ expression (ints, strs, bools, lists -> sequences, dicts -> records)."""
    if isinstance(v, bool):
        return "TRUE" if v else "FALSE"
    if isinstance(v, int):
        return str(v)
    if isinstance(v, str):
        return tla_str(v)
    if isinstance(v, (list, tuple)):
        return tla_seq([to_tla(x) for x in v])
    if isinstance(v, (set, frozenset)):
        return tla_set(sorted(to_tla(x) for x in v))
    if isinstance(v, dict):
        return "[" + ", ".join(f"{k} |-> {to_tla(x)}" for k, x in v.items()) + "]"
    raise TypeError(type(v))
