"""API sweep shared by C01, C02, C03, C04, C07: inputs are TLC-generated states / behaviours (spec -> code),
every real call becomes a trace validated by TraceCircuit.tla (code -> spec)."""
from . import core, impl, models, orbits, par, workers, tlc
from .tlc import MachineryError

FORMATS = ["matrices", "strings", "matrices-wide", "strings-minus", "matrices-nosign", "reused", "matrices-bool"]


def _fmt_input(inp, fmt):
    d = dict(inp)
    d["fmt"] = fmt
    if fmt == "matrices-nosign":
        d["codes"] = [c % impl.W2 for c in inp["codes"]]
    return d


def inputs_small(ck, n, signed, bases, rng, dumped=None):
    """Every (signed) stabilizer state of n qubits from the exhaustive tableau-machine model."""
    states = dumped if dumped is not None else models.clifford_states(ck, n, signed=signed, dump=True, invariants=("TypeOK",))
    out = []
    for s in states:
        tab = s["tab"]
        if not signed:  # sign-free enumeration: choose the signs at random
            tab = [c % impl.W2 + impl.W2 * rng.randrange(2) for c in tab]
        gens = [tab] + [impl.remix(tab, rng) for _ in range(bases - 1)]
        for k, g in enumerate(gens):
            out.append({"n": n, "codes": g, "program": s["hist"] if (k == 0 and signed) else None, "graph": None,
                        "src": f"MC_Clifford state n={n} path={len(s['hist'])}"})
    return out


def all_bases_n2(tab):
    """all 6 ordered generating pairs of a two-qubit group"""
    a, b = tab
    c = impl.mul(a, b)
    els = [a, b, c]
    return [[x, y] for x in els for y in els if x != y]


def inputs_classes(ck, n, per_class, layers, rng, graph_dump=None):
    """Members of every local-Clifford class: orbit graphs (TLC LCOrbits dump) + seeded local layers."""
    if graph_dump is None:
        res, graph_dump, _ = models.graph_orbits(ck, n, None, dump=True)
        tlc.require_ok(res, f"LCOrbits n={n}")
        if res.violated_invariant or res.distinct != 2 ** (n * (n - 1) // 2):
            raise MachineryError(f"LCOrbits n={n}: {res.violated_invariant} {res.distinct}")
        ck.add_tlc(f"LCOrbits(N={n})", res, note="orbit members used as inputs")
    by_rep = {}
    for g in graph_dump:
        by_rep.setdefault(g["rep"], []).append(g["g"])
    out = []
    for rep, members in sorted(by_rep.items()):
        members = sorted(members)
        pick = [members[0]] + [members[rng.randrange(len(members))] for _ in range(per_class - 1)]
        for g in pick:
            codes = impl.graph_gens(n, g)
            prog = graph_program(n, g)
            out.append({"n": n, "codes": codes, "program": prog, "graph": g, "rep": rep, "src": f"LCOrbits graph {g} (class rep {rep})"})
            for _ in range(layers):
                layer = impl.random_local_layer(n, rng)
                out.append({"n": n, "codes": impl.remix(impl.apply_gates_codes(layer, codes), rng), "program": prog + layer, "graph": None,
                            "rep": rep, "src": f"LCOrbits graph {g} (class rep {rep}) + local layer + remix"})
    return out


def inputs_table_graphs(L, ns=(2, 3, 4, 5, 6)):
    """the graph state of every table line, requested on that line's own connectivity (the local-Clifford layer can then be the identity)"""
    out = []
    for (n, conn) in impl.SUPPORTED:
        if n not in ns:
            continue
        for i in range(impl.NUM_CLASSES[n]):
            try:
                g = int(L.circuit_lookup.stabilizer_circuit_lookup(n, conn, i).graph_id)
            except Exception:
                continue
            out.append({"n": n, "codes": impl.graph_gens(n, g), "program": graph_program(n, g), "graph": g, "rep": ("line", conn, i), "only_conn": conn,
                        "src": f"graph of table line stabilizer{n}-{conn}#{i}"})
    return out


def named_states(n):
    """Textbook states as preparation programs: GHZ, linear / ring cluster, star graph, Y-basis product, 6-qubit AME (names for the evidence)."""
    out = []
    out.append(("GHZ", [["h", 0, -1]] + [["cx", i, i + 1] for i in range(n - 1)]))
    out.append(("GHZ-minus", [["x", 0, -1], ["h", 0, -1]] + [["cx", i, i + 1] for i in range(n - 1)] + [["x", n - 1, -1]]))
    out.append(("linear cluster", [["h", q, -1] for q in range(n)] + [["cz", i, i + 1] for i in range(n - 1)]))
    if n >= 3:
        out.append(("ring cluster", [["h", q, -1] for q in range(n)] + [["cz", i, (i + 1) % n] for i in range(n)]))
    out.append(("star graph", [["h", q, -1] for q in range(n)] + [["cz", 0, i] for i in range(1, n)]))
    out.append(("Y-basis product", [g for q in range(n) for g in (["h", q, -1], ["s", q, -1])]))
    out.append(("Y-basis product minus", [g for q in range(n) for g in (["h", q, -1], ["sdg", q, -1])]))
    out.append(("GHZ in the Y frame", [["h", 0, -1]] + [["cx", i, i + 1] for i in range(n - 1)] + [["s", q, -1] for q in range(n)]))
    if n == 6:
        path = [0, 1, 2, 3, 4, 5, 0, 4, 5, 2, 1, 3]
        edges = sorted({tuple(sorted((path[i], path[i + 1]))) for i in range(len(path) - 1)})
        out.append(("AME(6)", [["h", q, -1] for q in range(6)] + [["cz", a, b] for a, b in edges]))
    return out


def graph_program(n, g):
    """the textbook graph-state circuit: H on every qubit, CZ on every edge (documented bit layout of the graph id)"""
    gates = [["h", q, -1] for q in range(n)]
    idx = 0
    for i in range(n - 1):
        for j in range(i + 1, n):
            if g >> idx & 1:
                gates.append(["cz", i, j])
            idx += 1
    return gates


def expand_jobs(inputs, apis, rng, conns=None, formats=True):
    jobs = []
    for i, inp in enumerate(inputs):
        n = inp["n"]
        for conn in ([inp["only_conn"]] if inp.get("only_conn") else (conns(n) if conns else impl.conns(n))):
            for api in apis:
                if api == "compress":
                    if inp.get("program") is None:
                        continue
                    j = dict(inp, api=api, conn=conn, fmt="circuit")
                else:
                    choices = list(FORMATS) if formats else ["matrices"]
                    if inp.get("graph") is not None:
                        choices.append("graph")
                    if inp.get("program") is not None:
                        choices.append("circuit")
                    fmt = choices[rng.randrange(len(choices))]
                    j = _fmt_input(inp, fmt) if fmt in FORMATS else dict(inp, fmt=fmt)
                    j.update(api=api, conn=conn)
                    if api == "readout":
                        j["alt"] = [c % impl.W2 + impl.W2 * rng.randrange(2) for c in j["codes"]]
                if conn == "all" and rng.random() < 0.3:
                    j["default_conn"] = True
                jobs.append(j)
    return jobs


def to_trace(job, r):
    api = job["api"]
    return {"kind": api, "n": job["n"], "conn": job["conn"],
            "target": [] if api == "compress" else job["codes"],
            "program": job["program"] if api == "compress" else [],
            "gates": r["gates"], "cls": r["cls"], "graph": r["graph"], "cost": r["cost"], "depth": r["depth"],
            "layer": r["layer"], "unchanged": r["unchanged"], "alt": r["alt"], "hasalt": r["hasalt"],
            "raised": 1 if r["exc"] else 0, "fmt": job.get("fmt", ""), "exc": r["exc"] or "", "src": job.get("src", ""),
            "rep": job.get("rep", -1), "stale": r.get("stale", "")}


def sign_sweep_jobs(inputs, api, rng, per_n=None):
    """a few generator lists per register size, each requested with all sign vectors (n<=4) or 8 of them, in ONE worker process"""
    per_n = per_n or {2: 6, 3: 6, 4: 4, 5: 3, 6: 3}
    out = []
    for n in range(2, 7):
        cand = [i for i in inputs if i["n"] == n]
        for inp in [cand[rng.randrange(len(cand))] for _ in range(per_n[n])] if cand else []:
            vectors = list(range(1 << n)) if n <= 4 else sorted({0, (1 << n) - 1} | {rng.randrange(1 << n) for _ in range(6)})
            for conn in impl.conns(n):
                out.append({"n": n, "codes": inp["codes"], "conn": conn, "api": api, "vectors": vectors})
    return out


def special_programs(ck, seed, quick=True):
    """Input programs with structure that random behaviours of the unrestricted machine rarely have (all of them behaviours of the tableau machine, generated
    by TLC -simulate): (a) circuits whose only two-qubit gates are swaps - no entangling gate at all - for every connectivity; (b) ALREADY TAILORED circuits:
    behaviours of the machine whose gate guard is the coupling graph of one connectivity (swap included), short, to be compressed for that connectivity."""
    out = []
    for n in range(3, 7):
        for b in models.simulate_programs(ck, n, 4 if quick else 40, 5, seed=seed + 7 * n, names1=("h", "s", "x"), names2=("swap",)):
            if any(g[2] >= 0 for g in b["hist"]):
                out.append({"n": n, "codes": [], "program": b["hist"], "graph": None, "src": f"swap-only behaviour n={n}"})
    for (n, conn) in impl.SUPPORTED:
        if conn == "all" or n < 3:
            continue
        for depth in ((5, 9) if quick else (4, 6, 9, 13)):
            for b in models.simulate_programs(ck, n, 5 if quick else 60, depth, seed=seed + 101 * n + depth + len(conn), names1=("h", "s"), names2=("cx", "cz", "swap"), conn=conn):
                if any(g[0] == "swap" for g in b["hist"]):
                    out.append({"n": n, "codes": [], "program": b["hist"], "graph": None, "only_conn": conn, "src": f"behaviour of the {n}-{conn} machine (already tailored), len {len(b['hist'])}"})
    return out


def table_plus_swap_programs(L, rng, per_cfg=12):
    """(c) NEARLY OPTIMAL tailored circuits with a swap: the shipped circuit of a low-cost class (at most 2 two-qubit gates) followed by one swap on a
    coupled pair - few gates, all on coupled pairs, but a swap costs three.  The shipped circuits are only used to BUILD inputs (the specification
    computes the state of the program itself)."""
    out = []
    for (n, conn) in impl.SUPPORTED:
        if conn == "all" or n < 3:
            continue
        edges = [[int(a), int(b)] for a, b in L.connectivity_support.get_connectivity_graph(n, conn).get_edges()]
        cands = []
        for i in range(impl.NUM_CLASSES[n]):
            try:
                info = L.circuit_lookup.stabilizer_circuit_lookup(n, conn, i)
                if 1 <= int(info.cost) <= 2 and "swap" not in info.circuit_string:
                    cands.append(impl.gates_of(info.parse_circuit()))
            except Exception:
                continue
        for _ in range(min(per_cfg, len(cands) * len(edges))):
            g = cands[rng.randrange(len(cands))]
            a, b = edges[rng.randrange(len(edges))]
            out.append({"n": n, "codes": [], "program": [list(x) for x in g] + [["swap", a, b]], "graph": None, "only_conn": conn,
                        "src": f"shipped low-cost circuit of {n}-{conn} followed by swap({a},{b})"})
    return out


def conn_sweep_jobs(inputs, apis, rng, per_n=None):
    """a few inputs per register size; for each ONE Stabilizer object and ONE circuit object go through every connectivity of that size (in a seeded order,
    the first one once more at the end) and through the given APIs, in ONE worker process: results must not depend on what the same object was asked before"""
    per_n = per_n or {2: 3, 3: 4, 4: 4, 5: 4, 6: 4}
    out = []
    for n in range(2, 7):
        cand = [i for i in inputs if i["n"] == n and i.get("program") is not None and i.get("codes") and not i.get("only_conn")]
        for _ in range(per_n[n] if cand else 0):
            inp = cand[rng.randrange(len(cand))]
            conns = list(impl.conns(n))
            rng.shuffle(conns)
            calls = []
            for c in conns + conns[:1]:
                for a in apis:
                    calls.append((a, c))
            out.append({"n": n, "codes": inp["codes"], "program": inp["program"], "calls": calls, "src": inp.get("src", ""), "rep": inp.get("rep", -1)})
    return out


def run_jobs(ck, L, jobs, what, sweeps=()):
    core.dbg(what, "jobs", len(jobs))
    results = par.pmap(workers.api_call, jobs)
    for res in par.pmap(workers.sign_sweep, list(sweeps)):
        for j, r in res:
            jobs = jobs + [j]
            results = results + [r]
    core.dbg(what, "impl done")
    traces = [to_trace(j, r) for j, r in zip(jobs, results)]
    for t, r in zip(traces, results):
        if (r["exc"] or "").startswith("input:"):
            raise MachineryError(f"harness could not build input {t}: {r['exc']}")
    files = {"Exported.tla": core.exported_module(L)}
    verdicts, stats = core.validate_traces("TraceCircuit", traces, files=files, what=what)
    core.dbg(what, "tlc done")
    ck.add_stats(f"TraceCircuit({what})", stats)
    for t, (cl, _) in zip(traces, verdicts):
        if cl & {"bad-input", "bad-config"}:
            raise MachineryError(f"harness produced an invalid input ({sorted(cl)}): {t}")
    return traces, verdicts


def trace_key(t):
    return (t["kind"], t["n"], t["conn"], tuple(t["target"]), tuple(map(tuple, t["program"])), t["fmt"])


def is_product_plus(t):
    """trivial case: product class with all signs + (rule of DESIGN 3.5)"""
    return not any(g[2] >= 0 for g in t["gates"]) and all(c < impl.W2 for c in t["target"])


def report(ck, prop, traces, verdicts, clauses, trivial=is_product_plus):
    for t, (cl, extra) in zip(traces, verdicts):
        ck.count(trace_key(t), not trivial(t))
        bad = cl & clauses
        if t.get("stale") and "mutated-after-return" in clauses:
            bad = bad | {"mutated-after-return"}
        if bad:
            desc = (f"{t['kind']} n={t['n']} conn={t['conn']} fmt={t['fmt']} target={t['target'] or '(program)'} "
                    f"fails {sorted(bad)}" + (f" (raised {t['exc']})" if t["exc"] else "")
                    + (f"; the circuit returned earlier for [{t['stale']}] was modified by a later call" if t.get("stale") else ""))
            ck.violation(f"{t['kind']} {t['n']} {t['conn']} {t['target']} {t['program']}", desc, {"trace": t, "clauses": sorted(bad)})
        else:
            ck.accepted()


def replay_trace(path, clauses):
    """Re-run the real call of a recorded violation and re-validate its trace."""
    import json
    p = json.load(open(path))["payload"]
    t = p["trace"]
    L = impl.lib()
    job = {"api": t["kind"], "n": t["n"], "conn": t["conn"], "codes": t["target"], "fmt": "matrices" if t["fmt"] in ("graph", "circuit", "") else t["fmt"],
           "program": t["program"], "alt": None}
    if t["kind"] == "compress":
        job["fmt"] = "circuit"
    r = workers.api_call(job)
    t2 = to_trace(job, r)
    v, _ = core.validate_traces("TraceCircuit", [t2], files={"Exported.tla": core.exported_module(L)}, jvms=1)
    print("replayed call:", {k: t2[k] for k in ("kind", "n", "conn", "target", "gates", "exc")})
    print("replayed verdict:", sorted(v[0][0]))
    return 1 if v[0][0] & clauses else 0
