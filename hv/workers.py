"""Top-level worker functions executed in child processes (spawn): each drives the real library on one input and
returns plain data (projections only, no judgement)."""
import functools
import traceback

from . import impl


@functools.lru_cache(maxsize=None)
def L():
    return impl.lib()


_REUSED = {}      # one long-lived Stabilizer object per register size, re-used by assigning its public attributes R, S, phases


def stab_from_codes(n, codes, fmt="matrices"):
    import numpy as np
    lib = L()
    if fmt == "reused":
        # a caller that keeps ONE Stabilizer object and overwrites its generators (tests/random_stabilizer.py does exactly this)
        R, S, ph = impl.matrices_of_codes(codes, n)
        st = _REUSED.get(n)
        if st is None:
            st = _REUSED[n] = lib.stabilizer.Stabilizer((R, S, ph))
        else:
            st.R, st.S, st.phases = R, S, ph
        return st
    if fmt == "matrices":
        R, S, ph = impl.matrices_of_codes(codes, n)
        return lib.stabilizer.Stabilizer((R, S, ph))
    if fmt == "matrices-nosign":
        R, S, ph = impl.matrices_of_codes(codes, n)
        return lib.stabilizer.Stabilizer((R, S))
    if fmt == "matrices-wide":
        R, S, ph = impl.matrices_of_codes(codes, n, dtype=np.int64)
        return lib.stabilizer.Stabilizer((R, S, ph))
    if fmt == "matrices-bool":          # boolean arrays, as qiskit's PauliList / Pauli hold their x and z parts
        R, S, ph = impl.matrices_of_codes(codes, n, dtype=np.bool_)
        return lib.stabilizer.Stabilizer((R, S, ph))
    if fmt == "matrices-u8":
        R, S, ph = impl.matrices_of_codes(codes, n, dtype=np.uint8)
        return lib.stabilizer.Stabilizer((R, S, ph))
    if fmt == "strings":
        return lib.stabilizer.Stabilizer([impl.code_to_str(c, n, "always") for c in codes])
    if fmt == "strings-minus":
        return lib.stabilizer.Stabilizer([impl.code_to_str(c, n, "minus") for c in codes])
    raise ValueError(fmt)


def exc_name(e):
    return type(e).__name__


def classify(job):
    """job = (n, codes) -> {"id": int | None, "reid": int | None, "exc": str | None}"""
    n, codes = job[0], job[1]
    lib = L()
    try:
        st = stab_from_codes(n, codes, "reused" if (len(job) > 2 and job[2]) else "matrices")
        cid = int(lib.lc_classes.determine_lc_class(st).id())
    except Exception as e:
        return {"id": None, "reid": None, "exc": exc_name(e)}
    try:
        cls = getattr(lib.lc_classes, f"LCClass{n}")
        reid = int(cls(cid).id())
    except Exception as e:
        reid = -1
    return {"id": cid, "reid": reid, "exc": None}


# ---------------------------------------------------------------------------------------------
# circuit APIs
# ---------------------------------------------------------------------------------------------
def _snapshot_stab(st):
    return (st.R.tobytes(), st.S.tobytes(), st.phases.tobytes(), st.R.dtype.str, st.num_qubits)


def build_input(job):
    """-> (object passed to the API, snapshot function)"""
    lib = L()
    n, codes, fmt = job["n"], job["codes"], job.get("fmt", "matrices")
    if fmt == "graph":
        g = lib.graph.Graph.decompress(n, job["graph"])
        _OWN.append(g)          # the caller's own graph object: it goes on editing it once the call is over (api_call)
        return lib.stabilizer.Stabilizer(g)
    if fmt == "circuit":
        return lib.stabilizer.Stabilizer(impl.circuit_from_gates(n, job["program"], split=(len(job["program"]) % 4 == 2) * (1 + len(job["program"]) % max(1, n - 1))))
    return stab_from_codes(n, codes, fmt)


_OWN = []         # objects the caller built itself and passed (or used to build what it passed); edited after the call


def hostile(obj):
    """A hostile (but legitimate) caller: after the harness has projected a returned object it scribbles over everything reachable from it
    (lists, dicts, circuits incl. metadata, arrays).  If the library handed out something it still uses, later calls go wrong and are
    caught by the ordinary postconditions."""
    from . import history
    try:
        history.mutate(obj, L())
    except Exception:
        pass


_RECENT = []      # (circuit object, its gates when it was returned, description) of the last calls in this worker process


def _check_recent(out):
    """did a later call modify a circuit object that an earlier call handed out?"""
    for qc, gates, desc in _RECENT:
        try:
            now = impl.gates_of(qc)
        except Exception:
            now = None
        if now != gates:
            out["stale"] = desc
            break


def api_call(job):
    """job: {"api": prep|readout|compress, "n", "conn", "codes", "fmt", ["program"], ["graph"], ["alt"]}
    Returns the trace fields recorded from the real call (no judgement)."""
    from . import wrap
    lib = L()
    wrap.install(lib)
    sc = lib.stabilizer_circuits
    api, n, conn = job["api"], job["n"], job["conn"]
    out = {"gates": [], "cls": -1, "graph": -1, "cost": -1, "depth": -1, "layer": [], "unchanged": 1, "exc": None,
           "alt": [], "hasalt": 0, "stale": ""}
    try:
        if api == "compress":
            arg = job["_arg"] if job.get("_arg") is not None else impl.circuit_from_gates(n, job["program"], split=(len(job["program"]) % 4 == 1) * (1 + len(job["program"]) % max(1, n - 1)))
            before = impl.gates_of(arg)
        else:
            arg = job["_arg"] if job.get("_arg") is not None else build_input(job)      # _arg: an object the caller already holds and passes again
            before = _snapshot_stab(arg)
    except Exception as e:
        out["exc"] = "input:" + exc_name(e)
        return out
    wrap.begin()
    try:
        fn = {"prep": sc.get_preparation_circuit, "readout": sc.get_readout_circuit, "compress": sc.compress_preparation_circuit}[api]
        # the documented default of the connectivity parameter is "all": exercise the default path as well
        qc = fn(arg) if (conn == "all" and job.get("default_conn")) else fn(arg, conn)
        out["gates"] = impl.gates_of(qc)
        out["nq"] = qc.num_qubits
        _check_recent(out)
        # did the LIBRARY modify the argument? (snapshot taken before the harness itself starts scribbling over the result, which may be the argument object)
        out["unchanged"] = 1 if (impl.gates_of(arg) if api == "compress" else _snapshot_stab(arg)) == before else 0
        hostile(qc)                  # the caller now edits the circuit it was given ...
        while _OWN:                  # ... and the graph object it had built its input from
            hostile(_OWN.pop())
        _RECENT.append((qc, impl.gates_of(qc), f"{api} n={n} conn={conn} codes={job.get('codes')} fmt={job.get('fmt')}"))     # ... and nobody else may touch it afterwards
        del _RECENT[:-40]
    except Exception as e:
        out["exc"] = exc_name(e)
    for name, val in wrap.events():
        if name == "determine_lc_class" and "id" in val:
            out["cls"] = val["id"]
        elif name == "stabilizer_circuit_lookup" and "graph" in val:
            out.update(graph=val["graph"], cost=val["cost"], depth=val["depth"])
        elif name == "find_local_clifford_layer":
            if "blocks" in val and not val["offdiag"]:
                out["layer"] = val["blocks"]
            elif "blocks" in val:
                out["layer"] = [[2, 2, 2, 2]] * n       # not block diagonal: an invalid layer for the spec
    if out["exc"] is not None:
        after = impl.gates_of(arg) if api == "compress" else _snapshot_stab(arg)
        out["unchanged"] = 1 if after == before else 0
    if out["cls"] >= 0:
        # the caller also looks at the table entry of the class it has just been served (public lookup + parse_circuit) and edits the circuit it gets:
        # later requests for this class in this process must not notice
        try:
            hostile(lib.circuit_lookup.stabilizer_circuit_lookup(n, conn, out["cls"]).parse_circuit())
        except Exception:
            pass
    if api == "readout" and job.get("alt") is not None and out["exc"] is None:
        try:
            st2 = stab_from_codes(n, job["alt"], "matrices")
            out["alt"] = impl.gates_of(sc.get_readout_circuit(st2, conn))
            out["hasalt"] = 1
            _check_recent(out)
        except Exception as e:
            out["alt"] = [["!" + exc_name(e), -1, -1]]
            out["hasalt"] = 1
    return out


# ---------------------------------------------------------------------------------------------
# MUB families
# ---------------------------------------------------------------------------------------------
def mub_family(job):
    """job = (n, conn[, order]) -> everything the three MUB APIs return, projected; plus the library's readout circuits.  The caller then scribbles over
    everything it was given and asks again, the three APIs in another order: out["again"] is a second family of the same shape."""
    first = _mub_family_once(job[0], job[1], 0)
    if len(job) > 2 or first["exc"]:
        return first
    first["again"] = _mub_family_once(job[0], job[1], 1)
    first["again"]["pass"] = 2
    return first


def _mub_family_once(n, conn, order):
    from fractions import Fraction
    lib = L()
    out = {"n": n, "conn": conn, "exc": None, "pass": 1}
    try:
        if order == 0:
            mubs = lib.mub_circuits.get_mubs(n, conn)
            circs = lib.mub_circuits.get_mub_circuits(n, conn)
            info = lib.mub_circuits.get_mub_info(n, conn)
        else:
            info = lib.mub_circuits.get_mub_info(n, conn)
            circs = lib.mub_circuits.get_mub_circuits(n, conn)
            mubs = lib.mub_circuits.get_mubs(n, conn)
        out["bases"] = [[list(s) for s in b] for b in mubs]
        out["circuits"] = [impl.gates_of(c) for c in circs]
        avg = Fraction(info["average two-qubit count"]).limit_denominator(1 << 20)
        out["info"] = {"num": int(info["num circuits"]), "maxcost": int(info["max two-qubit count"]),
                       "maxdepth": int(info["max two-qubit depth"]), "avg": [avg.numerator, avg.denominator]}
        out["info_keys"] = sorted(info.keys())
        ro = []
        for b in mubs:
            try:
                ro.append(impl.gates_of(lib.stabilizer_circuits.get_readout_circuit(lib.stabilizer.Stabilizer(list(b)), conn)))
            except Exception as e:
                ro.append([["!" + exc_name(e), -1, -1]])
        out["readouts"] = ro
        hostile(mubs); hostile(circs); hostile(info)
    except Exception as e:
        out["exc"] = exc_name(e) + ": " + str(e)[:200]
    return out


# ---------------------------------------------------------------------------------------------
# connectivity graphs, measurement circuits
# ---------------------------------------------------------------------------------------------
def conn_graph(job):
    n, conn = job
    lib = L()
    g = lib.connectivity_support.get_connectivity_graph(n, conn)
    return {"op": "conn_graph", "n": n, "conn": conn, "edges": [[int(a), int(b)] for a, b in g.get_edges()],
            "nv": int(g.num_vertices), "rows": impl.graph_rows(g)}


def meas_circuits(job):
    """job: {"N", "m", "list" (or None), "conn", "prep": gates, "what": "tomo" | "stab", "codes": stabilizer to measure}
    -> list of `meas` trace records (one per delivered circuit)."""
    lib = L()
    N, m, lst, conn = job["N"], job["m"], job["list"], job["conn"]
    if job.get("registers"):
        # the documented alternative form: the preparation circuit has several quantum registers and the qubits to measure are given as Qubit objects
        from qiskit import QuantumCircuit, QuantumRegister
        k = job["registers"]
        prep = QuantumCircuit(QuantumRegister(k, "anc"), QuantumRegister(N - k, "data"))
        for name, a, b in job["prep"]:
            getattr(prep, "id" if name in ("i", "id") else name)(*([a] if b < 0 else [a, b]))
        arg_list = [prep.qubits[q] for q in lst] if lst is not None else None
    else:
        prep = impl.circuit_from_gates(N, job["prep"])
        arg_list = lst
        if lst is not None and job.get("seqtype") == "tuple":
            arg_list = tuple(lst)
        elif lst is not None and job.get("seqtype") == "ndarray":
            import numpy as np
            arg_list = np.array(lst)
    before = impl.gates_of(prep)
    out = []
    try:
        if job["what"] == "tomo":
            circs = lib.tomography.full_state_tomography_circuits(prep, conn, arg_list)
        else:
            st = stab_from_codes(m, job["codes"], "matrices")
            circs = [lib.tomography.stabilizer_measurement_circuit(prep, st, conn, arg_list)]
    except Exception as e:
        return [{"kind": "meas", "exc": exc_name(e) + ": " + str(e)[:200], "job": job}]
    unchanged = 1 if impl.gates_of(prep) == before else 0
    for i, qc in enumerate(circs):
        gates, measures = impl.split_measure(impl.gates_of(qc))
        try:
            info = qc.metadata["readout info"]
            ro = impl.gates_of(info.circuit)
            meta_ok = 1 if (info.total_num_qubits == N and (info.qubits is None) == (lst is None)
                            and (lst is None or list(info.qubits) == list(lst))) else 0
        except Exception:
            ro, meta_ok = [["!nometadata", -1, -1]], 0
        out.append({"kind": "meas", "n": N, "m": m, "list": list(lst) if lst is not None else list(range(N)), "conn": conn,
                    "preplen": len(before), "prep": before, "gates": gates, "measures": measures, "ro": ro,
                    "metaok": meta_ok, "unchanged": unchanged, "nq": qc.num_qubits, "what": job["what"], "index": i, "exc": ""})
    hostile(circs)
    return out


# ---------------------------------------------------------------------------------------------
# f2_algebra
# ---------------------------------------------------------------------------------------------
def _mat(a):
    return [[int(x) for x in row] for row in a.tolist()]


def f2_calls(job):
    """job = (rows (list of lists of 0/1), dtype name) -> one `f2` record."""
    import numpy as np
    rows, dt = job[0], job[1]
    lib = L()
    f2 = lib.f2_algebra
    A = np.array(rows, dtype=np.bool_ if dt == "bool" else getattr(np, dt))
    m, n = A.shape
    before = A.copy()
    rec = {"op": "f2", "m": m, "n": n, "A": rows, "dtype": dt, "exc": ""}
    try:
        R, piv = f2.rref(A)
        rec["R"], rec["piv"] = _mat(np.asarray(R)), [int(p) for p in piv]
        rec["rank"] = int(f2.rank(A))
        R2, M, Minv = f2.rref_and_basis_change(A)
        rec["R2"], rec["M"], rec["Minv"] = _mat(np.asarray(R2)), _mat(np.asarray(M)), _mat(np.asarray(Minv))
        ns = f2.null_space(A)
        ns = np.asarray(ns)
        rec["ns"] = {"ok": 1, "shape": [int(x) for x in ns.shape], "intdtype": 1 if ns.dtype.kind in "iub" else 0,
                     "rows": _mat(ns) if ns.ndim == 2 else [], "dtype": str(ns.dtype)}
    except Exception as e:
        rec["exc"] = exc_name(e) + ": " + str(e)[:200]
    rec["unchanged"] = 1 if (A.shape == before.shape and (A == before).all() and A.dtype == before.dtype) else 0
    if job_probe(job):
        # the same numbers as a matrix of the transposed SHAPE (not the transpose), evaluated right after: a different matrix
        B = [list(r) for r in zip(*[iter([x for row in rows for x in row])] * m)] if False else None
        flat = [x for row in rows for x in row]
        Brows = [flat[i * m:(i + 1) * m] for i in range(n)]
        return [rec, f2_calls((Brows, dt, False))]
    return rec


def job_probe(job):
    return len(job) < 3 or job[2]


# ---------------------------------------------------------------------------------------------
# graph codec / mutators, grouping codecs
# ---------------------------------------------------------------------------------------------
def graph_op(job):
    n, src, kind, a, b = job
    lib = L()
    G = lib.graph.Graph
    rec = {"op": "graphop", "n": n, "src": src, "kind": kind, "a": a, "b": b, "twice": -1, "id2": -1, "rows2": [], "rowskept": [], "exc": ""}
    try:
        g = G.decompress(n, src)
        rec["srcrows"] = impl.graph_rows(g)
        rec["srcid"] = int(g.compress())
        if kind == "lc":
            cp = g.local_complemented(a)
            rec["id2"] = int(cp.compress())
            rec["rows2"] = impl.graph_rows(cp)
            rec["rowskept"] = impl.graph_rows(g)
            g.local_complementation(a)
            h = g.copy()
            h.local_complementation(a)
            rec["twice"] = int(h.compress())
        elif kind == "toggle":
            if g.has_edge(a, b):
                g.remove_edge(a, b)
            else:
                g.add_edge(a, b)
        elif kind == "swap":
            g.swap(a, b)
        rec["rows"] = impl.graph_rows(g)
        rec["id"] = int(g.compress())
    except Exception as e:
        rec["exc"] = exc_name(e)
    return rec


def _blocks(repr_):
    return [[int(x) for x in t.data] for groups in repr_.groups for t in groups]


def grouping_records(_):
    """Grouping codecs and class ids through the PUBLIC surface only: the module-level codec pairs linear_index.to_<shape> / from_<shape>, and
    LCClass<n>(id) / .type / .data / .id() / count() / get_entanglement_structure() / LC_GI_size().  (The private tables _start_indices, combinatorics,
    combinatorics_map are not read: another organisation of them is equally correct - refactor R15.)"""
    import itertools
    import math
    import re
    lib = L()
    li = lib.linear_index
    recs = []
    names = sorted(m.group(1) for m in (re.fullmatch(r"to_(\d+s?)", a) for a in dir(li)) if m and hasattr(li, "from_" + m.group(1)))
    for name in names:
        to, frm = getattr(li, "to_" + name), getattr(li, "from_" + name)
        digits = [int(c) for c in name if c.isdigit()]
        ordered = 1 if name.endswith("s") else 0
        trivial = digits == [0]
        sizes = [0] * 6
        if not trivial:
            for d in digits:
                sizes[d - 1] += 1
        n = 0 if trivial else sum(digits)
        # how many indices to ask for: the number of such groupings (a hint only - the specification computes the number itself, clause `count`)
        den = 1
        for k, c in enumerate(sizes):
            den *= math.factorial(k + 1) ** c * math.factorial(c)
        count = 1 if trivial else math.factorial(n) // den * (2 if ordered else 1)
        rec = {"op": "grouping", "type": name, "n": n, "sizes": sizes, "count": count, "ordered": ordered,
               "images": [], "back": [], "perm": [], "singles": [], "exc": ""}
        try:
            for i in range(count):
                r = to(i)
                blocks = _blocks(r)
                rec["images"].append(blocks)
                rec["singles"].append([b[0] for b in blocks if len(b) == 1] if ordered else [])
                rec["back"].append(int(frm(to(i))))
                pb = []
                tuples = [t for groups in to(i).groups for t in groups]
                for perm in itertools.permutations(range(len(tuples))):
                    order = [tuples[k] for k in perm]
                    if ordered:  # the relative order of the singletons is part of the value
                        s_in = [t.data for t in tuples if len(t) == 1]
                        s_out = [t.data for t in order if len(t) == 1]
                        if s_in != s_out:
                            continue
                    rp = li.Repr([li.NTuple(list(t.data)) for t in order]) if order else li.Repr()
                    pb.append(int(frm(rp)))
                rec["perm"].append(pb)
        except Exception as e:
            rec["exc"] = exc_name(e) + ": " + str(e)[:100]
        recs.append(rec)
    for n in range(2, 7):
        cls = getattr(lib.lc_classes, f"LCClass{n}")
        K = impl.NUM_CLASSES[n]
        sr = {"op": "startidx", "n": n, "starts": [], "counts": [], "reids": [], "types": [], "exc": ""}
        try:
            structs = list(cls.EntanglementStructure)
            for i in range(K):
                obj = cls(i)
                again = cls(obj.type, li.Repr([li.NTuple(list(t.data)) for groups in obj.data.groups for t in groups]) if _blocks(obj.data) else li.Repr())
                ok = int(obj.id()) == i and int(again.id()) == i
                blocks = _blocks(obj.data)
                if ok and len(blocks) > 1:
                    # the same grouping with its blocks listed in reversed order (blocks of equal size change places; for the one shape whose two singletons
                    # are ordered, their relative order is kept)
                    singles = [b for b in blocks if len(b) == 1]
                    others = [b for b in blocks if len(b) > 1]
                    rev = singles + others[::-1]
                    ok = int(cls(obj.type, li.Repr([li.NTuple(list(b)) for b in rev])).id()) == i
                sr["reids"].append(i if ok else -1)       # id -> (type, grouping) -> id, also with the blocks of the grouping listed in another order
                sr["types"].append(int(cls.get_entanglement_structure(i)))
            first = {}
            for i, t in enumerate(sr["types"]):
                first.setdefault(t, i)
            sr["starts"] = [first.get(int(t), -1) for t in structs] + [int(cls.count())]
            for t in structs:
                sr["counts"].append(int(cls.LC_GI_size(t)))
        except Exception as e:
            sr["exc"] = exc_name(e) + ": " + str(e)[:100]
        recs.append(sr)
    return recs


# ---------------------------------------------------------------------------------------------
# Stabilizer formats, predicates, layer search
# ---------------------------------------------------------------------------------------------
def _stab_fields(st, suffix=""):
    return {"R" + suffix: _mat(st.R), "S" + suffix: _mat(st.S), "ph" + suffix: [int(x) for x in st.phases]}


def denote(job):
    """job: {"n", "fmt": strings|matrices|graph|circuit, ...} -> one `denote` record"""
    import numpy as np
    lib = L()
    St = lib.stabilizer.Stabilizer
    n, fmt = job["n"], job["fmt"]
    rec = {"op": "denote", "n": n, "fmt": fmt, "strs": [], "Rin": [], "Sin": [], "phin": [], "hasph": 0, "g": -1, "program": [], "exc": "", "unchanged": 1}
    try:
        if fmt == "strings":
            strs = list(job["strs"])
            rec["strs"] = [list(s) for s in strs]
            arg = list(strs)
            st = St(arg)
            rec["unchanged"] = 1 if arg == strs else 0
        elif fmt == "matrices":
            dt = getattr(np, job.get("dtype", "int8"))
            R, S = np.array(job["R"], dtype=dt), np.array(job["S"], dtype=dt)
            rec["Rin"], rec["Sin"] = job["R"], job["S"]
            if job.get("ph") is not None:
                ph = np.array(job["ph"], dtype=dt)
                rec["phin"], rec["hasph"] = job["ph"], 1
                st = St((R, S, ph))
                rec["unchanged"] = 1 if (ph.tolist() == job["ph"]) else 0
            else:
                st = St((R, S))
            if R.tolist() != job["R"] or S.tolist() != job["S"]:
                rec["unchanged"] = 0
        elif fmt == "graph":
            g = lib.graph.Graph.decompress(n, job["g"])
            rec["g"] = job["g"]
            st = St(g)
            rec["unchanged"] = 1 if int(g.compress()) == job["g"] else 0
        elif fmt == "circuit":
            # part of the circuits have their qubits spread over two quantum registers (a documented way of building circuits; global indices unchanged)
            qc = impl.circuit_from_gates(n, job["program"], split=(len(job["program"]) % 3 == 1) * (1 + len(job["program"]) % max(1, n - 1)))
            rec["program"] = job["program"]
            before = impl.gates_of(qc)
            st = St(qc)
            rec["unchanged"] = 1 if impl.gates_of(qc) == before else 0
        rec.update(_stab_fields(st))
        tl = st.to_list()
        rec["tolist"] = [list(s) for s in tl]
        rec["tolistq"] = [list(s) for s in st.to_list(qiskit_convention=True)]
        rec.update(_stab_fields(St(list(tl)), "2"))
    except Exception as e:
        rec["exc"] = exc_name(e) + ": " + str(e)[:120]
    return rec


def predicates(job):
    n, a, b = job
    rec = {"op": "pred", "n": n, "a": a, "b": b, "exc": ""}
    # how the caller holds the matrices (a deterministic function of the input): int8, boolean (qiskit), int64, uint8
    fmt = ("matrices", "matrices-bool", "matrices-wide", "matrices-u8", "matrices", "matrices-bool")[(sum(a) + sum(b)) % 6]
    rec["fmt"] = fmt
    try:
        sa, sb = stab_from_codes(n, a, fmt), stab_from_codes(n, b, fmt)
        rec["equiv"] = 1 if sa.is_equivalent_mod_phase(sb) else 0
        X, Z = sa.expand()
        rec["expX"], rec["expZ"] = _mat(X), _mat(Z)
        rec["ent"] = [1 if sa.is_qubit_entangled(q) else 0 for q in range(n)]
        # the caller scribbles over the arrays it was given and asks again (same object): the answer must not change
        try:
            X[...] = 1
            Z[...] = 0
        except Exception:
            pass
        X2, Z2 = sa.expand()
        rec["expX2"], rec["expZ2"] = _mat(X2), _mat(Z2)
        rec["ent2"] = [1 if sa.is_qubit_entangled(q) else 0 for q in range(n)]
        rec["equiv2"] = 1 if sb.is_equivalent_mod_phase(sa) else 0
    except Exception as e:
        rec["exc"] = exc_name(e) + ": " + str(e)[:120]
    return rec


def layer_search(job):
    """job = (n, P codes (m of them, sign ignored), graph id)"""
    import numpy as np
    n, P, g = job[0], job[1], job[2]
    witness = job[3] if len(job) > 3 else []
    lib = L()
    fl = lib.find_local_clifford_layer
    m = len(P)
    # the binary matrices in one of the array types a caller may hold them in (int8 as Stabilizer stores them, bool as qiskit's PauliList does, uint8, int64);
    # which one is a deterministic function of the input, so that every run and every replay sees the same call
    dt = job[4] if len(job) > 4 else ("int8", "bool", "uint8", "int64", "int8")[(sum(P) + 3 * g + m) % 5]
    R = np.zeros((n, m), dtype=getattr(np, dt + "_" if dt == "bool" else dt))
    S = np.zeros((n, m), dtype=R.dtype)
    for j, c in enumerate(P):
        for q in range(n):
            R[q, j] = (c >> q) & 1
            S[q, j] = (c >> (8 + q)) & 1
    rec = {"op": "layer", "n": n, "P": [c % impl.W2 for c in P], "g": g, "res": "none", "blocks": [], "offdiag": 0, "gates": [], "circ": 0, "exc": "", "witness": witness, "dtype": dt}
    graph = lib.graph.Graph.decompress(n, g)
    Rb, Sb = R.copy(), S.copy()
    # shape probes: the same numbers regrouped to another qubit number (and the same graph id on that many vertices) are asked first, in the same process;
    # the answer to the real question must not depend on it
    for n2 in range(2, 7):
        if n2 != n and (n * m) % n2 == 0 and g < (1 << (n2 * (n2 - 1) // 2)):
            try:
                fl.find_local_clifford_layer(R.reshape(n2, (n * m) // n2).copy(), S.reshape(n2, (n * m) // n2).copy(), lib.graph.Graph.decompress(n2, g))
            except Exception:
                pass
    try:
        A = fl.find_local_clifford_layer(R, S, graph)
    except Exception as e:
        rec["res"] = "raise"
        rec["exc"] = exc_name(e) + ": " + str(e)[:120]
        return rec
    rec["unchanged"] = 1 if ((R == Rb).all() and (S == Sb).all() and int(graph.compress()) == g) else 0
    if A is None:
        return rec
    rec["res"] = "layer"
    try:
        rec["blocks"] = [[int(A[j][i, i]) & 1 for j in range(4)] for i in range(n)]
        rec["offdiag"] = 1 if any(int(A[j][a, b]) for j in range(4) for a in range(n) for b in range(n) if a != b) else 0
        if len(A) != 4 or any(tuple(A[j].shape) != (n, n) for j in range(4)):
            rec["offdiag"] = 1
    except Exception as e:
        rec["offdiag"] = 1
    try:
        rec["gates"] = impl.gates_of(fl.local_clifford_layer_to_circuit(A))
        rec["circ"] = 1
    except Exception as e:
        rec["circ"] = 0
    return rec


# ---------------------------------------------------------------------------------------------
# tomography
# ---------------------------------------------------------------------------------------------
class FakeResult:
    """duck-typed qiskit Result: the fitters only call get_counts()"""

    def __init__(self, counts):
        self._counts = counts

    def get_counts(self, *a, **k):
        return self._counts


def make_result(circs, counts_list, form="int"):
    """A genuine qiskit Result for the given circuits: one experiment per circuit with that circuit's classical-register header, so that qiskit itself
    formats the count keys (blanks between registers).  counts_list[i]: {clbit string (blanks ignored): count}.  form: how the numbers are held -
    int (shots), float (the exact distribution as probabilities: count / 1024, exactly representable), np (numpy integers).
    Falls back to the duck-typed FakeResult when qiskit refuses the construction."""
    import numpy as np
    try:
        from qiskit.result import Result
        exps = []
        for qc, cd in zip(circs, counts_list):
            ncl = qc.num_clbits
            cregs = [[r.name, r.size] for r in qc.cregs]
            if sum(s for _, s in cregs) != ncl:
                cregs = [["c", ncl]]
            data = {}
            for k, v in cd.items():
                hk = hex(int(k.replace(" ", ""), 2))
                val = v / 1024 if form == "float" else (np.int64(v) if form == "np" else int(v))
                data[hk] = data.get(hk, 0) + val
            exps.append({"shots": int(sum(cd.values())), "success": True, "data": {"counts": data},
                         "header": {"creg_sizes": cregs, "memory_slots": ncl, "name": qc.name}})
        return Result.from_dict({"backend_name": "hv", "backend_version": "0", "job_id": "0", "success": True, "results": exps})
    except Exception:
        conv = (lambda v: v / 1024) if form == "float" else ((lambda v: np.int64(v)) if form == "np" else int)
        cl = [{k: conv(v) for k, v in cd.items()} for cd in counts_list]
        return FakeResult(cl if len(cl) > 1 else cl[0])


def meas_layout(qc):
    """the measurement layout of a delivered circuit, read from the circuit itself: [(qubit, clbit)], number of clbits, classical register sizes"""
    pairs = []
    for inst in qc.data:
        if inst.operation.name == "measure":
            pairs.append((qc.find_bit(inst.qubits[0]).index, qc.find_bit(inst.clbits[0]).index))
    return pairs, qc.num_clbits, [r.size for r in qc.cregs]


def device_counts(qc, counts_q, N):
    """What a device / simulator reports for this circuit when the outcome distribution over the N qubits is `counts_q` (keys in qiskit order: the
    character for qubit N-1 first): every classical bit shows the outcome of the qubit measured into it (0 if none), keys are formatted like qiskit does
    (highest classical bit first, one blank between classical registers, the last register first), outcomes that coincide are added up."""
    pairs, ncl, cregs = meas_layout(qc)
    if sum(cregs) != ncl:           # loose classical bits: qiskit then reports one flat string
        cregs = [ncl]
    out = {}
    for k, v in counts_q.items():
        s = k.replace(" ", "")
        bits = ["0"] * ncl
        for q, c in pairs:
            bits[c] = s[N - 1 - q]
        parts, pos = [], 0
        for size in cregs:
            parts.append("".join(reversed(bits[pos:pos + size])))
            pos += size
        key = " ".join(reversed(parts))
        out[key] = out.get(key, 0) + v
    return out


def _tomo_build(job, k):
    import numpy as np
    lib = L()
    N, lst, conn = job["N"], job["list"], job["conn"]
    form = job.get("argform", "list")
    prep = impl.circuit_from_gates(N, job["comps"][k][1])
    arg = lst
    if lst is not None and form == "tuple":
        arg = tuple(lst)
    elif lst is not None and form == "edited":
        arg = np.array(lst)
    st = None
    if form == "tuple":
        prep.metadata = {"experiment": "hv", "tags": [1, 2]}       # the caller's own metadata on its preparation circuit
    if job["kind"] == "full":
        circs = lib.tomography.full_state_tomography_circuits(prep, conn, arg)
    else:
        st = stab_from_codes(job["m"], job["meas"], "matrices")
        circs = [lib.tomography.stabilizer_measurement_circuit(prep, st, conn, arg)]
    if form == "tuple":
        # the same preparation circuit object is used for a further request (another stabilizer: the computational basis; the tomography family once
        # more) BEFORE the first circuits are evaluated; the first circuits must not notice
        try:
            m = job["m"]
            lib.tomography.stabilizer_measurement_circuit(prep, stab_from_codes(m, [impl.W << q for q in range(m)], "matrices"), conn, arg)
            if job["kind"] == "full":
                lib.tomography.full_state_tomography_circuits(prep, conn, arg)
        except Exception:
            pass
    if form == "edited":
        # the call is over; the caller goes on using ITS objects: the qubit array is reversed in place, the stabilizer's arrays are overwritten, the
        # preparation circuit gets more gates.  The delivered circuits (and everything the fitters read later) must not depend on that.
        try:
            if lst is not None:
                arg[:] = arg[::-1].copy()
            if st is not None:
                st.R[:] = 0
                st.S[:] = 1
                st.phases[:] = 1
            prep.h(0)
            prep.x(N - 1)
        except Exception:
            pass
    return circs


def tomo_phase_a(job):
    """-> {"circuits": [[gates of circuit i of component k for k] for i], "exc"}"""
    out = {"circuits": [], "exc": ""}
    try:
        per_comp = []
        for k in range(len(job["comps"])):
            built = _tomo_build(job, k)
            per_comp.append([impl.split_measure(impl.gates_of(qc))[0] for qc in built])
            hostile(built)
        ncirc = len(per_comp[0])
        out["circuits"] = [[per_comp[k][i] for k in range(len(per_comp))] for i in range(ncirc)]
    except Exception as e:
        out["exc"] = exc_name(e) + ": " + str(e)[:150]
    return out


def _entries(ev):
    from fractions import Fraction
    ents = []
    for p, v in ev.items():
        code, phase = impl.qiskit_pauli_code(p)
        fr = Fraction(float(v)).limit_denominator(1 << 20)
        ents.append([code % impl.W, (code // impl.W) % impl.W, phase, fr.numerator, fr.denominator])
    return ents


def readout_part(qc, preplen, lst, N):
    """the readout circuit as it was actually appended to the preparation circuit: gates after the preparation prefix (measurements dropped), mapped back
    from the measured qubits to 0..m-1.  Independent of the (private) metadata object."""
    gates, _ = impl.split_measure(impl.gates_of(qc))
    pos = {q: i for i, q in enumerate(lst if lst is not None else range(N))}
    out = []
    for name, a, b in gates[preplen:]:
        out.append([name, pos.get(a, -1), pos.get(b, -1) if b >= 0 else -1])
    return out


def tomo_phase_b(job):
    """job additionally has "counts": [dict per circuit] (exact statistics computed by the spec).
    -> {"values": entries of the family fitter, "per_circuit": [entries of circuit i], "ro": [...], "dm_ok", "exc"}"""
    import numpy as np
    lib = L()
    T = lib.tomography
    out = {"values": [], "per_circuit": [], "ro": [], "dm_ok": 1, "exc": ""}
    try:
        circs = _tomo_build(job, 0)
        counts = [device_counts(qc, cq, job["N"]) for qc, cq in zip(circs, job["counts"])]     # the spec's statistics as the device reports them for these circuits
        full = bool(job["full"])
        cform = job.get("countform", "int")          # shots / probabilities / numpy integers
        res = make_result(circs, counts, cform)
        if job["kind"] == "full":
            fitter = T.FullStateTomographyFitter(res, circs)
        else:
            fitter = T.StabilizerMeasurementFitter(res, circs[0])
        ev = fitter.expectation_values(full_hilbert_space=full)
        out["values"] = _entries(ev)
        # the same fitter object asked again with the other flag (and then the first flag once more)
        out["values_other"] = _entries(fitter.expectation_values(full_hilbert_space=not full))
        out["values_again"] = _entries(fitter.expectation_values(full_hilbert_space=full))
        for i, qc in enumerate(circs):
            f = T.StabilizerMeasurementFitter(make_result(circs, counts, cform), qc, result_index=i) if len(counts) > 1 else T.StabilizerMeasurementFitter(make_result([qc], [counts[0]], cform), qc)
            out["per_circuit"].append(_entries(f.expectation_values(full_hilbert_space=full)))
            out["ro"].append(readout_part(qc, len(impl.gates_of(impl.circuit_from_gates(job["N"], job["comps"][0][1]))), job["list"], job["N"]))
        # the only floating point step: rho = 2^-n sum <P> P (cross-checked numerically, outside the spec)
        if job.get("dm") and (job["N"] if full else job["m"]) <= 5:
            rho = fitter.density_matrix(full_hilbert_space=full)
            ref = np.zeros_like(rho)
            for p, v in ev.items():
                ref += p.to_matrix() * v
            ref /= rho.shape[0]
            ok = np.allclose(rho, ref, atol=1e-12) and np.allclose(rho, rho.conj().T, atol=1e-12) and abs(np.trace(rho) - 1) < 1e-12
            out["dm_ok"] = 1 if ok else 0
    except Exception as e:
        out["exc"] = exc_name(e) + ": " + str(e)[:150]
    return out


def fitter_counts(job):
    """StabilizerMeasurementFitter on an arbitrary count dictionary.
    job: {"N","m","list","conn","index","kind","meas","counts": {str: int}, "full"} -> `fitter` record"""
    lib = L()
    T = lib.tomography
    rec = {"op": "fitter", "N": job["N"], "m": job["m"], "list": job["list"] if job["list"] is not None else list(range(job["N"])),
           "full": 1 if job["full"] else 0, "counts": [[list(k.replace(" ", "")), int(v)] for k, v in job["counts"].items()], "ro": [], "values": [], "exc": ""}
    try:
        j = dict(job, comps=[[1, job.get("prep", [])]])
        circs = _tomo_build(j, 0)
        qc = circs[job["index"] % len(circs)]
        f = T.StabilizerMeasurementFitter(make_result([qc], [device_counts(qc, job["counts"], job["N"])], job.get("countform", "int")), qc)
        rec["values"] = _entries(f.expectation_values(full_hilbert_space=bool(job["full"])))
        rec["ro"] = readout_part(qc, len(impl.gates_of(impl.circuit_from_gates(job["N"], job.get("prep", [])))), job["list"], job["N"])
    except Exception as e:
        rec["exc"] = exc_name(e) + ": " + str(e)[:150]
    return rec


def marginal(job):
    """CircuitResult(counts, qubits) -> `marginal` record"""
    lib = L()
    counts, lst, N = job
    rec = {"op": "marginal", "N": N, "haslist": 0 if lst is None else 1, "list": lst or [], "counts": [[list(k), int(v)] for k, v in counts.items()], "stored": [], "nq": -1, "exc": ""}
    try:
        cr = lib.tomography.CircuitResult(dict(counts), lst)
        rec["stored"] = [[int(r.bitstring), int(r.count)] for r in cr.results]
        rec["nq"] = int(cr.num_qubits)
    except Exception as e:
        rec["exc"] = exc_name(e) + ": " + str(e)[:150]
    return rec


# ---------------------------------------------------------------------------------------------
# C08: arbitrary requests, configuration gate
# ---------------------------------------------------------------------------------------------
def request(job):
    """job: {"n", "codes", "fmt": matrices|strings, "api": prep|readout, "conn"} -> `request` record"""
    lib = L()
    n, codes, api, conn = job["n"], job["codes"], job["api"], job["conn"]
    rec = {"op": "request", "n": n, "given": codes, "api": api, "conn": conn, "fmt": job["fmt"], "outcome": "raise", "gates": [], "validate": -1, "ctorv": -1, "exc": ""}
    try:
        st = stab_from_codes(n, codes, "matrices" if job["fmt"] == "matrices" else "strings-minus")
        try:
            rec["validate"] = 1 if st.validate() else 0
        except Exception as e:
            rec["validate"] = -1
        # the same validity check through the constructor flag (documented: validate=True asserts validity)
        try:
            R, S, ph = impl.matrices_of_codes(codes, n)
            lib.stabilizer.Stabilizer((R, S, ph), validate=True)
            rec["ctorv"] = 1
        except AssertionError:
            rec["ctorv"] = 0
        except Exception:
            rec["ctorv"] = -1
        if api == "prep":
            qc = lib.stabilizer_circuits.get_preparation_circuit(st, conn)
        else:
            qc = lib.stabilizer_circuits.get_readout_circuit(st, conn)
        rec["gates"] = impl.gates_of(qc)
        rec["outcome"] = "return"
    except Exception as e:
        rec["exc"] = exc_name(e)
    return rec


def malformed(job):
    """strings that are not n Pauli strings of length n: any exception is fine; a returned circuit is judged by the documented denotation"""
    lib = L()
    strs, api, conn = job
    rec = {"strs": strs, "api": api, "conn": conn, "outcome": "raise", "exc": "", "gates": [], "n": -1, "R": [], "S": [], "ph": []}
    try:
        st = lib.stabilizer.Stabilizer(list(strs))
        rec["n"] = int(st.num_qubits)
        rec.update(_stab_fields(st))
        qc = (lib.stabilizer_circuits.get_preparation_circuit if api == "prep" else lib.stabilizer_circuits.get_readout_circuit)(st, conn)
        rec["gates"] = impl.gates_of(qc)
        rec["outcome"] = "return"
    except Exception as e:
        rec["exc"] = exc_name(e)
    return rec


ENTRY_POINTS = ["get_preparation_circuit", "get_readout_circuit", "compress_preparation_circuit", "get_mub_circuits", "get_mubs", "get_mub_info",
                "full_state_tomography_circuits", "stabilizer_measurement_circuit", "get_connectivity_graph", "is_connectivity_supported",
                "assert_connectivity_is_supported", "full_state_tomography_circuits[subset]", "stabilizer_measurement_circuit[subset]"]


def config_gate(job):
    """job = (entry point, n, name) -> `config` record"""
    from qiskit import QuantumCircuit
    entry, n, name = job[0], job[1], job[2]
    lib = L()
    rec = {"op": "config", "entry": entry, "n": n, "name": name if name is not None else "<None>", "outcome": "raise", "exc": "", "state": job[3] if len(job) > 3 else "zero"}
    if len(job) > 3 and job[3] == "npint":
        import numpy as np
        n = np.int64(n)          # a qubit count that arrives as a numpy integer must be treated like the int it equals
    try:
        St = lib.stabilizer.Stabilizer
        zs = ["I" * q + "Z" + "I" * (n - q - 1) for q in range(n)]
        empty = QuantumCircuit(n)
        if len(job) > 3 and job[3] == "ghz" and n >= 2:      # an entangled state instead of the computational basis state
            zs = ["X" * n] + ["I" * q + "ZZ" + "I" * (n - q - 2) for q in range(n - 1)]
            empty.h(0)
            for q in range(n - 1):
                empty.cx(q, q + 1)
        if entry == "get_preparation_circuit":
            lib.stabilizer_circuits.get_preparation_circuit(St(zs), name)
        elif entry == "get_readout_circuit":
            lib.stabilizer_circuits.get_readout_circuit(St(zs), name)
        elif entry == "compress_preparation_circuit":
            lib.stabilizer_circuits.compress_preparation_circuit(empty, name)
        elif entry == "get_mub_circuits":
            lib.mub_circuits.get_mub_circuits(n, name)
        elif entry == "get_mubs":
            lib.mub_circuits.get_mubs(n, name)
        elif entry == "get_mub_info":
            lib.mub_circuits.get_mub_info(n, name)
        elif entry == "full_state_tomography_circuits":
            lib.tomography.full_state_tomography_circuits(empty, name)
        elif entry == "stabilizer_measurement_circuit":
            lib.tomography.stabilizer_measurement_circuit(empty, St(zs), name)
        elif entry == "full_state_tomography_circuits[subset]":
            lib.tomography.full_state_tomography_circuits(QuantumCircuit(n + 2), name, list(range(n + 1, 1, -1)))
        elif entry == "stabilizer_measurement_circuit[subset]":
            lib.tomography.stabilizer_measurement_circuit(QuantumCircuit(n + 2), St(zs), name, list(range(n + 1, 1, -1)))
        elif entry == "get_connectivity_graph":
            lib.connectivity_support.get_connectivity_graph(n, name)
        elif entry == "assert_connectivity_is_supported":
            lib.connectivity_support.assert_connectivity_is_supported(n, name)
        elif entry == "is_connectivity_supported":
            if not lib.connectivity_support.is_connectivity_supported(n, name):
                raise AssertionError("reported unsupported")
        rec["outcome"] = "return"
    except Exception as e:
        rec["exc"] = exc_name(e)
    return rec


def sign_sweep(job):
    """All (or several) sign vectors of ONE generator list requested one after the other in one process; the caller keeps every returned
    circuit.  -> list of api_call results (one per sign vector); a circuit modified by a later call is reported in the field `stale`."""
    import itertools
    if job.get("calls"):
        return conn_sweep(job)
    n, codes, conn, api, vectors = job["n"], job["codes"], job["conn"], job["api"], job["vectors"]
    outs = []
    for v in vectors:
        cs = [(c % impl.W2) + impl.W2 * ((v >> i) & 1) for i, c in enumerate(codes)]
        j = {"api": api, "n": n, "conn": conn, "codes": cs, "fmt": "matrices", "alt": None}
        outs.append((j, api_call(j)))
    final = {"stale": ""}
    _check_recent(final)
    if final["stale"] and outs:
        outs[-1][1]["stale"] = outs[-1][1]["stale"] or final["stale"]
    return outs


def conn_sweep(job):
    """ONE Stabilizer object and ONE circuit object, held by the caller and passed again and again: job["calls"] = [(api, connectivity), ...] in the
    order they are made, all in one process.  -> list of (job, api_call result), each judged like any other call."""
    n, codes, program = job["n"], job["codes"], job["program"]
    st = stab_from_codes(n, codes, "matrices") if any(a != "compress" for a, _ in job["calls"]) else None
    qc = impl.circuit_from_gates(n, program)
    outs = []
    for api, conn in job["calls"]:
        j = {"api": api, "n": n, "conn": conn, "codes": list(codes), "program": program, "fmt": "circuit" if api == "compress" else "matrices", "alt": None,
             "src": job.get("src", "") + " [same object, call sequence " + " ".join(f"{a}:{c}" for a, c in job["calls"]) + "]", "rep": job.get("rep", -1)}
        r = api_call(dict(j, _arg=qc if api == "compress" else st))
        outs.append((j, r))
    final = {"stale": ""}
    _check_recent(final)
    if final["stale"] and outs:
        outs[-1][1]["stale"] = outs[-1][1]["stale"] or final["stale"]
    return outs


# ---------------------------------------------------------------------------------------------
# extras (coverage backlog beyond the listed properties)
# ---------------------------------------------------------------------------------------------
def graph_build(job):
    """job: {"n", "kind", "src", "a", "list"} -> `graphbuild` record"""
    lib = L()
    G = lib.graph.Graph
    n, kind = job["n"], job["kind"]
    rec = {"op": "graphbuild", "n": n, "kind": kind, "src": job.get("src", 0), "a": job.get("a", 0), "list": job.get("list", []), "exc": "",
           "rows": [], "count": -1, "edges": [], "circ": 0, "gates": []}
    try:
        if kind == "empty":
            g = G(n)
        elif kind == "full":
            g = G.fully_connected(n)
        elif kind == "star":
            g = G.star(n, job["a"])
        elif kind == "linear":
            g = G.linear(n)
        elif kind == "cycle":
            g = G.cycle(n)
        elif kind == "pusteblume":
            g = G.pusteblume(n)
        else:
            g = G.decompress(n, job["src"])
            if kind == "add_path":
                g.add_path(list(job["list"]))
            elif kind == "add_star":
                g.add_star(list(job["list"]))
            elif kind == "remove_all_edges_to":
                g.remove_all_edges_to(job["a"])
            elif kind == "clear":
                g.clear()
        rec["rows"] = impl.graph_rows(g)
        rec["count"] = int(g.edge_count())
        rec["edges"] = [[int(a), int(b)] for a, b in g.get_edges()]
        try:
            rec["gates"] = impl.gates_of(g.to_circuit())
            rec["circ"] = 1
        except Exception as e:
            rec["circ_exc"] = exc_name(e)
    except Exception as e:
        rec["exc"] = exc_name(e) + ": " + str(e)[:100]
    return rec


def rotate(job):
    """job: {"n", "circuit": gates, "tkind": circuit|stab, "tprog", "tcodes", "inplace"} -> `rotate` record"""
    lib = L()
    n = job["n"]
    rec = {"op": "rotate", "n": n, "circuit": job["circuit"], "tkind": job["tkind"], "tprog": job.get("tprog", []), "tcodes": job.get("tcodes", []),
           "inplace": 1 if job["inplace"] else 0, "outcome": "raise", "result": [], "inputafter": [], "exc": ""}
    qc = impl.circuit_from_gates(n, job["circuit"])
    rec["circuit"] = impl.gates_of(qc)
    try:
        target = impl.circuit_from_gates(n, job["tprog"]) if job["tkind"] == "circuit" else stab_from_codes(n, job["tcodes"])
        if job["tkind"] == "circuit":
            rec["tprog"] = impl.gates_of(target)
        res = lib.rotate_stabilizer_into_state.rotate_stabilizer_into_state(qc, target, inplace=bool(job["inplace"]))
        rec["result"] = impl.gates_of(res)
        rec["outcome"] = "return"
    except Exception as e:
        rec["exc"] = exc_name(e)
    rec["inputafter"] = impl.gates_of(qc)
    return rec


def synth(job):
    lib = L()
    n, codes = job
    rec = {"op": "synth", "n": n, "codes": codes, "outcome": "raise", "gates": [], "exc": ""}
    try:
        strs = []
        for c in codes:
            s = impl.code_to_str(c, n, "always")
            strs.append(s[0] + s[1:][::-1])          # qiskit convention: qubit 0 is the LAST character
        qc = lib.rotate_stabilizer_into_state.synth_circuit_from_stabilizers(strs)
        rec["gates"] = impl.gates_of(qc)
        rec["outcome"] = "return"
    except Exception as e:
        rec["exc"] = exc_name(e)
    return rec


def method_order(job):
    """job = (n, codes).  What an object answers must not depend on which of its other (read-only) methods were called before: the class object of a
    stabilizer asked for its graph and grouping directly, and after id() / str() / ==; the Stabilizer object asked for its group expansion directly, and
    after to_list() / validate() / is_qubit_entangled().  -> both projections; the check compares them."""
    n, codes = job
    lib = L()
    out = {"n": n, "codes": list(codes), "exc": ""}
    try:
        a = lib.lc_classes.determine_lc_class(stab_from_codes(n, codes, "matrices"))
        out["graph_fresh"] = impl.graph_rows(a.get_graph())
        out["data_fresh"] = _blocks(a.data)
        b = lib.lc_classes.determine_lc_class(stab_from_codes(n, codes, "matrices"))
        out["id"] = int(b.id())
        str(b)
        b == b
        out["graph_after"] = impl.graph_rows(b.get_graph())
        out["data_after"] = _blocks(b.data)
        out["id_after"] = int(b.id())
        s1 = stab_from_codes(n, codes, "matrices")
        X, Z = s1.expand()
        out["exp_fresh"] = [_mat(X), _mat(Z)]
        s2 = stab_from_codes(n, codes, "matrices")
        s2.to_list(); s2.validate(); [s2.is_qubit_entangled(q) for q in range(n)]; s2.to_list(qiskit_convention=True)
        X, Z = s2.expand()
        out["exp_after"] = [_mat(X), _mat(Z)]
        out["tab_after"] = paulis = impl.paulis_of(s2)
    except Exception as e:
        out["exc"] = exc_name(e) + ": " + str(e)[:100]
    return out


def synth_flags(job):
    """job = (n, codes (any number of signed Paulis), allow_redundant, allow_underconstrained, invert) -> `synthflags` record"""
    lib = L()
    n, codes, red, und, inv = job
    rec = {"op": "synthflags", "n": n, "given": list(codes), "red": int(red), "und": int(und), "invert": int(inv), "outcome": "raise", "gates": [], "exc": ""}
    try:
        strs = []
        for c in codes:
            s = impl.code_to_str(c, n, "always")
            strs.append(s[0] + s[1:][::-1])          # qiskit convention: qubit 0 is the LAST character
        qc = lib.rotate_stabilizer_into_state.synth_circuit_from_stabilizers(strs, allow_redundant=bool(red), allow_underconstrained=bool(und), invert=bool(inv))
        rec["gates"] = impl.gates_of(qc)
        rec["outcome"] = "return"
    except Exception as e:
        rec["exc"] = exc_name(e)
    return rec


def same_state(job):
    lib = L()
    n, c1, c2 = job
    q1, q2 = impl.circuit_from_gates(n, c1), impl.circuit_from_gates(n, c2)
    rec = {"op": "same", "n": n, "c1": impl.gates_of(q1), "c2": impl.gates_of(q2), "answer": -1, "exc": ""}
    try:
        rec["answer"] = 1 if lib.rotate_stabilizer_into_state.do_prepare_same_state(q1, q2) else 0
    except Exception as e:
        rec["exc"] = exc_name(e)
    return rec


def zpauli(job):
    lib = L()
    n, b = job
    rec = {"op": "zpauli", "n": n, "b": b, "outcome": "raise", "nq": -1, "code": -1, "phase": -1, "exc": ""}
    try:
        p = lib.tomography.z_pauli_from_bitstring(n, b)
        code, phase = impl.qiskit_pauli_code(p)
        rec.update(outcome="return", nq=int(p.num_qubits), code=code, phase=phase)
    except Exception as e:
        rec["exc"] = exc_name(e)
    return rec


def pairidx(job):
    lib = L()
    n, i, j = job
    rec = {"op": "pairidx", "n": n, "i": i, "j": j, "outcome": "raise", "idx": -1, "back": [], "exc": ""}
    try:
        idx = lib.linear_index.linear_index_from_n_choose_2(n, i, j)
        back = lib.linear_index.linear_index_to_n_choose2_to(n, idx)
        rec.update(outcome="return", idx=int(idx), back=[int(back[0]), int(back[1])])
    except Exception as e:
        rec["exc"] = exc_name(e)
    return rec


def repr_groups(job):
    lib = L()
    lists = job
    rec = {"op": "repr", "n": 2, "lists": [list(x) for x in lists], "outcome": "raise", "groups": [], "flat": [], "selfeq": -1, "exc": ""}
    try:
        li = lib.linear_index
        r = li.Repr([list(x) for x in lists]) if lists else li.Repr()
        r2 = li.Repr([li.NTuple(list(x)) for x in lists]) if lists else li.Repr(None)
        rec.update(outcome="return", groups=[[[int(v) for v in t.data] for t in g] for g in r.groups], flat=[int(v) for v in r.flatten()],
                   selfeq=1 if (r == r2 and all(len(t) == len(t.data) and [t[k] for k in range(len(t))] == sorted(t.data) for g in r.groups for t in g)) else 0)
    except Exception as e:
        rec["exc"] = exc_name(e)
    return rec


def parse_text(job):
    lib = L()
    n, text, expected, wellformed = job
    rec = {"op": "parse", "n": n, "text": text, "expected": expected, "wellformed": wellformed, "outcome": "raise", "gates": [], "exc": ""}
    try:
        rec["gates"] = impl.gates_of(lib.circuit_lookup.parse_circuit(n, text))
        rec["outcome"] = "return"
    except Exception as e:
        rec["exc"] = exc_name(e)
    return rec
