"""Top-level worker functions executed in child processes (spawn): each drives the real library on one input and
returns plain data (projections only, no judgement)."""
import functools
import traceback

from . import impl


@functools.lru_cache(maxsize=None)
def L():
    return impl.lib()


def stab_from_codes(n, codes, fmt="matrices"):
    import numpy as np
    lib = L()
    if fmt == "matrices":
        R, S, ph = impl.matrices_of_codes(codes, n)
        return lib.stabilizer.Stabilizer((R, S, ph))
    if fmt == "matrices-nosign":
        R, S, ph = impl.matrices_of_codes(codes, n)
        return lib.stabilizer.Stabilizer((R, S))
    if fmt == "matrices-wide":
        R, S, ph = impl.matrices_of_codes(codes, n, dtype=np.int64)
        return lib.stabilizer.Stabilizer((R, S, ph))
    if fmt == "strings":
        return lib.stabilizer.Stabilizer([impl.code_to_str(c, n, "always") for c in codes])
    if fmt == "strings-minus":
        return lib.stabilizer.Stabilizer([impl.code_to_str(c, n, "minus") for c in codes])
    raise ValueError(fmt)


def exc_name(e):
    return type(e).__name__


def classify(job):
    """job = (n, codes) -> {"id": int | None, "reid": int | None, "exc": str | None}"""
    n, codes = job
    lib = L()
    try:
        st = stab_from_codes(n, codes)
        cid = int(lib.lc_classes.determine_lc_class(st).id())
    except Exception as e:
        return {"id": None, "reid": None, "exc": exc_name(e)}
    try:
        cls = getattr(lib.lc_classes, f"LCClass{n}")
        reid = int(cls(cid).id())
    except Exception as e:
        reid = -1
    return {"id": cid, "reid": reid, "exc": None}
