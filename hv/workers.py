"""Top-level worker functions executed in child processes (spawn): each drives the real library on one input and
returns plain data (projections only, no judgement)."""
import functools
import traceback

from . import impl


@functools.lru_cache(maxsize=None)
def L():
    return impl.lib()


def stab_from_codes(n, codes, fmt="matrices"):
    import numpy as np
    lib = L()
    if fmt == "matrices":
        R, S, ph = impl.matrices_of_codes(codes, n)
        return lib.stabilizer.Stabilizer((R, S, ph))
    if fmt == "matrices-nosign":
        R, S, ph = impl.matrices_of_codes(codes, n)
        return lib.stabilizer.Stabilizer((R, S))
    if fmt == "matrices-wide":
        R, S, ph = impl.matrices_of_codes(codes, n, dtype=np.int64)
        return lib.stabilizer.Stabilizer((R, S, ph))
    if fmt == "strings":
        return lib.stabilizer.Stabilizer([impl.code_to_str(c, n, "always") for c in codes])
    if fmt == "strings-minus":
        return lib.stabilizer.Stabilizer([impl.code_to_str(c, n, "minus") for c in codes])
    raise ValueError(fmt)


def exc_name(e):
    return type(e).__name__


def classify(job):
    """job = (n, codes) -> {"id": int | None, "reid": int | None, "exc": str | None}"""
    n, codes = job
    lib = L()
    try:
        st = stab_from_codes(n, codes)
        cid = int(lib.lc_classes.determine_lc_class(st).id())
    except Exception as e:
        return {"id": None, "reid": None, "exc": exc_name(e)}
    try:
        cls = getattr(lib.lc_classes, f"LCClass{n}")
        reid = int(cls(cid).id())
    except Exception as e:
        reid = -1
    return {"id": cid, "reid": reid, "exc": None}


# ---------------------------------------------------------------------------------------------
# circuit APIs
# ---------------------------------------------------------------------------------------------
def _snapshot_stab(st):
    return (st.R.tobytes(), st.S.tobytes(), st.phases.tobytes(), st.R.dtype.str, st.num_qubits)


def build_input(job):
    """-> (object passed to the API, snapshot function)"""
    lib = L()
    n, codes, fmt = job["n"], job["codes"], job.get("fmt", "matrices")
    if fmt == "graph":
        g = lib.graph.Graph.decompress(n, job["graph"])
        return lib.stabilizer.Stabilizer(g)
    if fmt == "circuit":
        return lib.stabilizer.Stabilizer(impl.circuit_from_gates(n, job["program"]))
    return stab_from_codes(n, codes, fmt)


def api_call(job):
    """job: {"api": prep|readout|compress, "n", "conn", "codes", "fmt", ["program"], ["graph"], ["alt"]}
    Returns the trace fields recorded from the real call (no judgement)."""
    from . import wrap
    lib = L()
    wrap.install(lib)
    sc = lib.stabilizer_circuits
    api, n, conn = job["api"], job["n"], job["conn"]
    out = {"gates": [], "cls": -1, "graph": -1, "cost": -1, "depth": -1, "layer": [], "unchanged": 1, "exc": None,
           "alt": [], "hasalt": 0}
    try:
        if api == "compress":
            arg = impl.circuit_from_gates(n, job["program"])
            before = impl.gates_of(arg)
        else:
            arg = build_input(job)
            before = _snapshot_stab(arg)
    except Exception as e:
        out["exc"] = "input:" + exc_name(e)
        return out
    wrap.begin()
    try:
        if api == "prep":
            qc = sc.get_preparation_circuit(arg, conn)
        elif api == "readout":
            qc = sc.get_readout_circuit(arg, conn)
        else:
            qc = sc.compress_preparation_circuit(arg, conn)
        out["gates"] = impl.gates_of(qc)
        out["nq"] = qc.num_qubits
    except Exception as e:
        out["exc"] = exc_name(e)
    for name, val in wrap.events():
        if name == "determine_lc_class" and "id" in val:
            out["cls"] = val["id"]
        elif name == "stabilizer_circuit_lookup" and "graph" in val:
            out.update(graph=val["graph"], cost=val["cost"], depth=val["depth"])
        elif name == "find_local_clifford_layer":
            if "blocks" in val and not val["offdiag"]:
                out["layer"] = val["blocks"]
            elif "blocks" in val:
                out["layer"] = [[2, 2, 2, 2]] * n       # not block diagonal: an invalid layer for the spec
    after = impl.gates_of(arg) if api == "compress" else _snapshot_stab(arg)
    out["unchanged"] = 1 if after == before else 0
    if api == "readout" and job.get("alt") is not None and out["exc"] is None:
        try:
            st2 = stab_from_codes(n, job["alt"], "matrices")
            out["alt"] = impl.gates_of(sc.get_readout_circuit(st2, conn))
            out["hasalt"] = 1
        except Exception as e:
            out["alt"] = [["!" + exc_name(e), -1, -1]]
            out["hasalt"] = 1
    return out
