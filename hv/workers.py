"""Top-level worker functions executed in child processes (spawn): each drives the real library on one input and
returns plain data (projections only, no judgement)."""
import functools
import traceback

from . import impl


@functools.lru_cache(maxsize=None)
def L():
    return impl.lib()


def stab_from_codes(n, codes, fmt="matrices"):
    import numpy as np
    lib = L()
    if fmt == "matrices":
        R, S, ph = impl.matrices_of_codes(codes, n)
        return lib.stabilizer.Stabilizer((R, S, ph))
    if fmt == "matrices-nosign":
        R, S, ph = impl.matrices_of_codes(codes, n)
        return lib.stabilizer.Stabilizer((R, S))
    if fmt == "matrices-wide":
        R, S, ph = impl.matrices_of_codes(codes, n, dtype=np.int64)
        return lib.stabilizer.Stabilizer((R, S, ph))
    if fmt == "strings":
        return lib.stabilizer.Stabilizer([impl.code_to_str(c, n, "always") for c in codes])
    if fmt == "strings-minus":
        return lib.stabilizer.Stabilizer([impl.code_to_str(c, n, "minus") for c in codes])
    raise ValueError(fmt)


def exc_name(e):
    return type(e).__name__


def classify(job):
    """job = (n, codes) -> {"id": int | None, "reid": int | None, "exc": str | None}"""
    n, codes = job
    lib = L()
    try:
        st = stab_from_codes(n, codes)
        cid = int(lib.lc_classes.determine_lc_class(st).id())
    except Exception as e:
        return {"id": None, "reid": None, "exc": exc_name(e)}
    try:
        cls = getattr(lib.lc_classes, f"LCClass{n}")
        reid = int(cls(cid).id())
    except Exception as e:
        reid = -1
    return {"id": cid, "reid": reid, "exc": None}


# ---------------------------------------------------------------------------------------------
# circuit APIs
# ---------------------------------------------------------------------------------------------
def _snapshot_stab(st):
    return (st.R.tobytes(), st.S.tobytes(), st.phases.tobytes(), st.R.dtype.str, st.num_qubits)


def build_input(job):
    """-> (object passed to the API, snapshot function)"""
    lib = L()
    n, codes, fmt = job["n"], job["codes"], job.get("fmt", "matrices")
    if fmt == "graph":
        g = lib.graph.Graph.decompress(n, job["graph"])
        return lib.stabilizer.Stabilizer(g)
    if fmt == "circuit":
        return lib.stabilizer.Stabilizer(impl.circuit_from_gates(n, job["program"]))
    return stab_from_codes(n, codes, fmt)


def api_call(job):
    """job: {"api": prep|readout|compress, "n", "conn", "codes", "fmt", ["program"], ["graph"], ["alt"]}
    Returns the trace fields recorded from the real call (no judgement)."""
    from . import wrap
    lib = L()
    wrap.install(lib)
    sc = lib.stabilizer_circuits
    api, n, conn = job["api"], job["n"], job["conn"]
    out = {"gates": [], "cls": -1, "graph": -1, "cost": -1, "depth": -1, "layer": [], "unchanged": 1, "exc": None,
           "alt": [], "hasalt": 0}
    try:
        if api == "compress":
            arg = impl.circuit_from_gates(n, job["program"])
            before = impl.gates_of(arg)
        else:
            arg = build_input(job)
            before = _snapshot_stab(arg)
    except Exception as e:
        out["exc"] = "input:" + exc_name(e)
        return out
    wrap.begin()
    try:
        if api == "prep":
            qc = sc.get_preparation_circuit(arg, conn)
        elif api == "readout":
            qc = sc.get_readout_circuit(arg, conn)
        else:
            qc = sc.compress_preparation_circuit(arg, conn)
        out["gates"] = impl.gates_of(qc)
        out["nq"] = qc.num_qubits
    except Exception as e:
        out["exc"] = exc_name(e)
    for name, val in wrap.events():
        if name == "determine_lc_class" and "id" in val:
            out["cls"] = val["id"]
        elif name == "stabilizer_circuit_lookup" and "graph" in val:
            out.update(graph=val["graph"], cost=val["cost"], depth=val["depth"])
        elif name == "find_local_clifford_layer":
            if "blocks" in val and not val["offdiag"]:
                out["layer"] = val["blocks"]
            elif "blocks" in val:
                out["layer"] = [[2, 2, 2, 2]] * n       # not block diagonal: an invalid layer for the spec
    after = impl.gates_of(arg) if api == "compress" else _snapshot_stab(arg)
    out["unchanged"] = 1 if after == before else 0
    if api == "readout" and job.get("alt") is not None and out["exc"] is None:
        try:
            st2 = stab_from_codes(n, job["alt"], "matrices")
            out["alt"] = impl.gates_of(sc.get_readout_circuit(st2, conn))
            out["hasalt"] = 1
        except Exception as e:
            out["alt"] = [["!" + exc_name(e), -1, -1]]
            out["hasalt"] = 1
    return out


# ---------------------------------------------------------------------------------------------
# MUB families
# ---------------------------------------------------------------------------------------------
def mub_family(job):
    """job = (n, conn) -> everything the three MUB APIs return, projected; plus the library's readout circuits."""
    from fractions import Fraction
    n, conn = job
    lib = L()
    out = {"n": n, "conn": conn, "exc": None}
    try:
        mubs = lib.mub_circuits.get_mubs(n, conn)
        circs = lib.mub_circuits.get_mub_circuits(n, conn)
        info = lib.mub_circuits.get_mub_info(n, conn)
        out["bases"] = [[list(s) for s in b] for b in mubs]
        out["circuits"] = [impl.gates_of(c) for c in circs]
        avg = Fraction(info["average two-qubit count"]).limit_denominator(1 << 20)
        out["info"] = {"num": int(info["num circuits"]), "maxcost": int(info["max two-qubit count"]),
                       "maxdepth": int(info["max two-qubit depth"]), "avg": [avg.numerator, avg.denominator]}
        out["info_keys"] = sorted(info.keys())
        ro = []
        for b in mubs:
            try:
                ro.append(impl.gates_of(lib.stabilizer_circuits.get_readout_circuit(lib.stabilizer.Stabilizer(list(b)), conn)))
            except Exception as e:
                ro.append([["!" + exc_name(e), -1, -1]])
        out["readouts"] = ro
    except Exception as e:
        out["exc"] = exc_name(e) + ": " + str(e)[:200]
    return out


# ---------------------------------------------------------------------------------------------
# connectivity graphs, measurement circuits
# ---------------------------------------------------------------------------------------------
def conn_graph(job):
    n, conn = job
    lib = L()
    g = lib.connectivity_support.get_connectivity_graph(n, conn)
    return {"op": "conn_graph", "n": n, "conn": conn, "edges": [[int(a), int(b)] for a, b in g.get_edges()],
            "nv": int(g.num_vertices), "rows": impl.graph_rows(g)}


def meas_circuits(job):
    """job: {"N", "m", "list" (or None), "conn", "prep": gates, "what": "tomo" | "stab", "codes": stabilizer to measure}
    -> list of `meas` trace records (one per delivered circuit)."""
    lib = L()
    N, m, lst, conn = job["N"], job["m"], job["list"], job["conn"]
    prep = impl.circuit_from_gates(N, job["prep"])
    before = impl.gates_of(prep)
    out = []
    try:
        if job["what"] == "tomo":
            circs = lib.tomography.full_state_tomography_circuits(prep, conn, lst)
        else:
            st = stab_from_codes(m, job["codes"], "matrices")
            circs = [lib.tomography.stabilizer_measurement_circuit(prep, st, conn, lst)]
    except Exception as e:
        return [{"kind": "meas", "exc": exc_name(e) + ": " + str(e)[:200], "job": job}]
    unchanged = 1 if impl.gates_of(prep) == before else 0
    for i, qc in enumerate(circs):
        gates, measures = impl.split_measure(impl.gates_of(qc))
        try:
            info = qc.metadata["readout info"]
            ro = impl.gates_of(info.circuit)
            meta_ok = 1 if (info.total_num_qubits == N and (info.qubits is None) == (lst is None)
                            and (lst is None or list(info.qubits) == list(lst))) else 0
        except Exception:
            ro, meta_ok = [["!nometadata", -1, -1]], 0
        out.append({"kind": "meas", "n": N, "m": m, "list": list(lst) if lst is not None else list(range(N)), "conn": conn,
                    "preplen": len(before), "prep": before, "gates": gates, "measures": measures, "ro": ro,
                    "metaok": meta_ok, "unchanged": unchanged, "nq": qc.num_qubits, "what": job["what"], "index": i, "exc": ""})
    return out


# ---------------------------------------------------------------------------------------------
# f2_algebra
# ---------------------------------------------------------------------------------------------
def _mat(a):
    return [[int(x) for x in row] for row in a.tolist()]


def f2_calls(job):
    """job = (rows (list of lists of 0/1), dtype name) -> one `f2` record."""
    import numpy as np
    rows, dt = job
    lib = L()
    f2 = lib.f2_algebra
    A = np.array(rows, dtype=getattr(np, dt))
    m, n = A.shape
    before = A.copy()
    rec = {"op": "f2", "m": m, "n": n, "A": rows, "dtype": dt, "exc": ""}
    try:
        R, piv = f2.rref(A)
        rec["R"], rec["piv"] = _mat(np.asarray(R)), [int(p) for p in piv]
        rec["rank"] = int(f2.rank(A))
        R2, M, Minv = f2.rref_and_basis_change(A)
        rec["R2"], rec["M"], rec["Minv"] = _mat(np.asarray(R2)), _mat(np.asarray(M)), _mat(np.asarray(Minv))
        ns = f2.null_space(A)
        ns = np.asarray(ns)
        rec["ns"] = {"ok": 1, "shape": [int(x) for x in ns.shape], "intdtype": 1 if ns.dtype.kind in "iub" else 0,
                     "rows": _mat(ns) if ns.ndim == 2 else [], "dtype": str(ns.dtype)}
    except Exception as e:
        rec["exc"] = exc_name(e) + ": " + str(e)[:200]
    rec["unchanged"] = 1 if (A.shape == before.shape and (A == before).all() and A.dtype == before.dtype) else 0
    return rec
