"""Regenerates the table of seeded defects in DESIGN.md (between the SEEDTABLE markers) from seeded/*/meta.json:  python -m hv.seedtable"""
import glob
import json
import os

VERIF = os.path.dirname(os.path.dirname(os.path.abspath(__file__)))


def main():
    rows = ["| seed | property | idea of the change | needs, to manifest | suite green | before strengthening | caught by (quick tier, current) |", "|---|---|---|---|---|---|---|"]
    for f in sorted(glob.glob(os.path.join(VERIF, "seeded", "*", "meta.json"))):
        m = json.load(open(f))
        det = ", ".join(f"{d['check']} ({d['violation_lines']}{'+' if d['violation_lines'] >= 50 else ''} lines, {d['wall_s']} s)" if d["exit"] == 1 else f"{d['check']}: MISSED" for d in m.get("detected_by", []))
        ok = "yes" if m["confirmed"]["pinned_suite_all_152_stable_tests_pass"] else "NO (randomised test fails)"
        if "detected_before_strengthening" in m:
            bef = ", ".join(f"{d['check']} " + ("caught" if d["exit"] == 1 else "MISSED" if d["exit"] == 0 else "machinery failure") for d in m["detected_before_strengthening"])
        else:
            bef = "(round 1: see notes below)"
        rows.append(f"| {m['id']} | {m['property']} | {m['what']} | {m['needs_to_manifest']} | {ok} | {bef} | {det or 'not evaluated'} |")
    table = "\n".join(rows)
    p = os.path.join(VERIF, "DESIGN.md")
    s = open(p).read()
    a, b = "<!-- SEEDTABLE-BEGIN -->", "<!-- SEEDTABLE-END -->"
    if a in s:
        s = s[: s.index(a) + len(a)] + "\n" + table + "\n" + s[s.index(b):]
    else:
        s = s.replace("SEEDTABLE", a + "\n" + table + "\n" + b, 1)
    # quick-tier numbers from the committed evidence
    rows2 = ["| id | evaluations | distinct non-trivial | traces accepted by TLC | TLC states | TLC runs | wall | exhaustive |", "|---|---|---|---|---|---|---|---|"]
    for i in range(1, 20):
        pid = f"C{i:02d}"
        f = os.path.join(VERIF, "evidence", pid + ".json")
        if not os.path.exists(f):
            continue
        e = json.load(open(f))
        c = e["coverage"]
        rows2.append(f"| {pid} | {c['evaluations']} | {c['distinct_nontrivial']} | {c['traces_validated_against_impl']} | {c['states']} | {len(c['tlc_runs'])} | {e['wall_s']:.0f} s ({e['tier']}) | {'yes' if c.get('exhaustive') else 'parts'} |")
    rows3 = ["| refactor | what changed | checks run (quick tier) | outcome |", "|---|---|---|---|"]
    for f in sorted(glob.glob(os.path.join(VERIF, "refactors", "*", "meta.json"))):
        m = json.load(open(f))
        runs = m.get("results_first_run", [])
        bad = [r for r in runs if r["exit"] != 0]
        out = "all silent" if not bad else ("first run: " + ", ".join(f"{r['check']} exit {r['exit']}" for r in bad) + "; weakness of the machinery fixed, silent afterwards")
        if not bad and m.get("false_alarms_found"):
            out = "all silent (a false alarm of the earlier machinery was pre-empted, see text)"
        rows3.append(f"| {m['id']} | {m['what']} | {', '.join(r['check'] for r in runs)} | {out} |")
    a3, b3 = "<!-- REFTABLE-BEGIN -->", "<!-- REFTABLE-END -->"
    if a3 in s:
        s = s[: s.index(a3) + len(a3)] + "\n" + "\n".join(rows3) + "\n" + s[s.index(b3):]
    a2, b2 = "<!-- RESTABLE-BEGIN -->", "<!-- RESTABLE-END -->"
    if a2 in s:
        s = s[: s.index(a2) + len(a2)] + "\n" + "\n".join(rows2) + "\n" + s[s.index(b2):]
    open(p, "w").write(s)
    print(len(rows) - 2, "seeds in table;", len(rows2) - 2, "checks in results table")


if __name__ == "__main__":
    main()
