"""Dispatcher: bin/check <id> [--tier quick|thorough] [--replay file]"""
import argparse
import importlib
import os
import sys
import traceback


def main():
    ap = argparse.ArgumentParser()
    ap.add_argument("prop")
    ap.add_argument("--tier", default=os.environ.get("VERIF_TIER", "quick"), choices=["quick", "thorough"])
    ap.add_argument("--replay", default=None)
    a = ap.parse_args()
    from .tlc import MachineryError
    try:
        mod = importlib.import_module(f"hv.checks.{a.prop}")
        if a.replay:
            rc = mod.replay(a.replay)
        else:
            rc = mod.run(a.tier)
    except MachineryError as e:
        print(f"MACHINERY-FAILURE property={a.prop}: {e}", file=sys.stderr)
        rc = 2
    except Exception:
        traceback.print_exc()
        print(f"MACHINERY-FAILURE property={a.prop}: unexpected exception", file=sys.stderr)
        rc = 2
    sys.stdout.flush()
    sys.exit(rc)


if __name__ == "__main__":
    main()
