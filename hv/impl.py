"""Access to the implementation under test and the (trusted, tiny) projection functions.

The library is imported from $VERIF_REPO/src (default /repo/src), inserted first in sys.path,
so checks always see the current working tree.
"""
import os
import sys
import itertools

REPO = os.environ.get("VERIF_REPO", "/repo")
SRC = os.path.join(REPO, "src")
if SRC not in sys.path:
    sys.path.insert(0, SRC)
os.environ.setdefault("HTSTABILIZER_VERIF", "1")

import numpy as np  # noqa: E402

W = 256
W2 = 65536

# documented facts (README / docstrings); NOT read from the code
SUPPORTED = [(2, "all"), (3, "all"), (3, "linear"), (4, "all"), (4, "linear"), (4, "star"), (4, "cycle"),
             (5, "all"), (5, "linear"), (5, "star"), (5, "cycle"), (5, "T"), (5, "Q"),
             (6, "all"), (6, "linear"), (6, "star"), (6, "ladder"), (6, "E"), (6, "H"), (6, "Q")]
NUM_CLASSES = {2: 2, 3: 5, 4: 18, 5: 93, 6: 760}


def conns(n):
    return [c for (m, c) in SUPPORTED if m == n]


def lib():
    """Import the library modules lazily (so that a broken import is reported per check)."""
    import importlib
    mods = {}
    for name in ["stabilizer", "stabilizer_circuits", "circuit_lookup", "connectivity_support", "lc_classes",
                 "graph", "find_local_clifford_layer", "f2_algebra", "mub_circuits", "tomography",
                 "rotate_stabilizer_into_state", "linear_index"]:
        mods[name] = importlib.import_module("htstabilizer." + name)
    f = mods["stabilizer"].__file__
    if not os.path.abspath(f).startswith(os.path.abspath(SRC)):
        raise RuntimeError(f"htstabilizer imported from {f}, expected under {SRC}")
    return type("Lib", (), mods)


# ---------------------------------------------------------------------------------------------
# projections
# ---------------------------------------------------------------------------------------------
def gates_of(qc):
    """QuantumCircuit -> [[name, q1, q2], ...] (q2 = -1 for one-qubit gates).
    Barriers are skipped; measurements are returned separately by `split_measure`."""
    out = []
    for inst in qc.data:
        name = inst.operation.name
        qs = [qc.find_bit(q).index for q in inst.qubits]
        if name == "barrier":
            continue
        if name == "measure":
            out.append(["measure", qs[0], qc.find_bit(inst.clbits[0]).index])
            continue
        if len(qs) == 1:
            out.append([name, qs[0], -1])
        elif len(qs) == 2:
            out.append([name, qs[0], qs[1]])
        else:
            out.append([name + f"/{len(qs)}", qs[0], qs[1]])
    return out


def split_measure(gates):
    g = [x for x in gates if x[0] != "measure"]
    m = [[x[1], x[2]] for x in gates if x[0] == "measure"]
    return g, m


def circuit_from_gates(n, gates, split=0):
    """split = k > 0: the same circuit with its qubits in two quantum registers of k and n - k qubits (global qubit indices unchanged)"""
    from qiskit import QuantumCircuit, QuantumRegister
    qc = QuantumCircuit(n) if not (0 < split < n) else QuantumCircuit(QuantumRegister(split, "ra"), QuantumRegister(n - split, "rb"))
    for name, a, b in gates:
        if name in ("i", "id"):
            qc.id(a)
        elif b < 0:
            getattr(qc, name)(a)
        else:
            getattr(qc, name)(a, b)
    return qc


def paulis_of(stab):
    """Stabilizer -> [x + 256 z + 65536 s, ...], one per generator (column)."""
    n = stab.num_qubits
    out = []
    for j in range(n):
        x = sum(int(stab.R[q, j]) & 1 and (1 << q) for q in range(n))
        z = sum(int(stab.S[q, j]) & 1 and (1 << q) for q in range(n))
        out.append(x + W * z + W2 * (int(stab.phases[j]) & 1))
    return out


def pauli_code(x, z, s=0):
    return x + W * z + W2 * s


def qiskit_pauli_code(p):
    """qiskit Pauli -> (code, phase) where code has sign bit 0 and phase is Pauli.phase - #Y mod 4 ... see below.
    qiskit's Pauli.phase is the exponent of -i in front of the label string, so a Hermitian signed Pauli has
    phase 0 (+) or 2 (-)."""
    x = sum((1 << q) for q in range(p.num_qubits) if p.x[q])
    z = sum((1 << q) for q in range(p.num_qubits) if p.z[q])
    return x + W * z, int(p.phase)


def code_to_chars(code, n, sign=True):
    x, z, s = code % W, (code // W) % W, code // W2
    body = ["IXZY"[((x >> q) & 1) + 2 * ((z >> q) & 1)] for q in range(n)]
    return (["-" if s else "+"] if sign else []) + body


def code_to_str(code, n, sign="always"):
    x, z, s = code % W, (code // W) % W, code // W2
    body = "".join("IXZY"[((x >> q) & 1) + 2 * ((z >> q) & 1)] for q in range(n))
    if sign == "always":
        return ("-" if s else "+") + body
    if sign == "minus":
        return ("-" if s else "") + body
    return body


def matrices_of_codes(codes, n, dtype=np.int8):
    R = np.zeros((n, n), dtype=dtype)
    S = np.zeros((n, n), dtype=dtype)
    ph = np.zeros(n, dtype=dtype)
    for j, c in enumerate(codes):
        x, z, s = c % W, (c // W) % W, c // W2
        for q in range(n):
            R[q, j] = (x >> q) & 1
            S[q, j] = (z >> q) & 1
        ph[j] = s
    return R, S, ph


def graph_rows(g):
    """Graph -> adjacency bit rows."""
    n = g.num_vertices
    return [sum((int(g.adjacency_matrix[i, j]) & 1) << j for j in range(n)) for i in range(n)]


# ---------------------------------------------------------------------------------------------
# a tiny independent Pauli calculator used ONLY to build inputs (re-mixed generators etc.).
# Everything it produces is re-validated by the TLA+ spec at the request event.
# ---------------------------------------------------------------------------------------------
def popc(m):
    return bin(m).count("1")


def mul(p, q):
    x1, z1, s1 = p % W, (p // W) % W, p // W2
    x2, z2, s2 = q % W, (q // W) % W, q // W2
    x3, z3 = x1 ^ x2, z1 ^ z2
    e = (popc(x1 & z1) + popc(x2 & z2) + 2 * (s1 + s2 + popc(z1 & x2)) + 4 - (popc(x3 & z3) % 4)) % 4
    assert e % 2 == 0, "product of anticommuting Paulis"
    return x3 + W * z3 + W2 * (e // 2)


def remix(gens, rng):
    """Another generating set of the same signed group: random invertible GF(2) combination."""
    n = len(gens)
    while True:
        M = [[rng.randrange(2) for _ in range(n)] for _ in range(n)]
        if gf2_rank(M) == n:
            break
    out = []
    for row in M:
        p = 0
        for j, b in enumerate(row):
            if b:
                p = mul(p, gens[j])
        out.append(p)
    return out


def gf2_rank(M):
    rows = [sum(b << j for j, b in enumerate(r)) for r in M]
    rank = 0
    for bit in range(max(len(r) for r in M) if M else 0):
        piv = None
        for i in range(rank, len(rows)):
            if (rows[i] >> bit) & 1:
                piv = i
                break
        if piv is None:
            continue
        rows[rank], rows[piv] = rows[piv], rows[rank]
        for i in range(len(rows)):
            if i != rank and (rows[i] >> bit) & 1:
                rows[i] ^= rows[rank]
        rank += 1
    return rank


def apply_gate_code(g, p):
    """Independent re-implementation used only to construct inputs (random local layers)."""
    name, a, b = g
    x, z, s = p % W, (p // W) % W, p // W2
    xa, za = (x >> a) & 1, (z >> a) & 1
    if name == "h":
        x = x & ~(1 << a) | (za << a)
        z = z & ~(1 << a) | (xa << a)
        s ^= xa & za
    elif name == "s":
        z ^= xa << a
        s ^= xa & za
    elif name == "sdg":
        z ^= xa << a
        s ^= xa & (1 - za)
    elif name == "x":
        s ^= za
    elif name == "z":
        s ^= xa
    elif name == "y":
        s ^= xa ^ za
    else:
        raise ValueError(name)
    return x + W * z + W2 * s


LOCAL_WORDS = [[], ["h"], ["s"], ["s", "h"], ["h", "s"], ["h", "s", "h"]]


def random_local_layer(n, rng, paulis=True):
    gates = []
    for q in range(n):
        for nm in LOCAL_WORDS[rng.randrange(6)]:
            gates.append([nm, q, -1])
        if paulis:
            nm = rng.choice(["", "x", "y", "z"])
            if nm:
                gates.append([nm, q, -1])
    return gates


def apply_gates_codes(gates, codes):
    out = list(codes)
    for g in gates:
        out = [apply_gate_code(g, p) for p in out]
    return out


def graph_gens(n, gid):
    """Generators X_v Z_N(v) of the graph with the documented id layout (used to build inputs)."""
    rows = [0] * n
    idx = 0
    for i in range(n - 1):
        for j in range(i + 1, n):
            if gid >> idx & 1:
                rows[i] |= 1 << j
                rows[j] |= 1 << i
            idx += 1
    return [(1 << v) + W * rows[v] for v in range(n)]


def commute(p, q):
    x1, z1 = p % W, (p // W) % W
    x2, z2 = q % W, (q // W) % W
    return (popc(x1 & z2) + popc(z1 & x2)) % 2 == 0


def neighbour_last_generators(n, gens):
    """All Paulis (sign-free codes) that can replace the LAST generator of a valid stabilizer so that the list is again a valid stabilizer of a
    DIFFERENT group: commute with the first n-1 generators and lie outside the span of all n (64 candidates for n = 6). Untrusted input builder."""
    span = {0}
    for g in gens:
        span |= {e ^ (g % W2) for e in span}
    out = []
    for x in range(1 << n):
        for z in range(1 << n):
            p = x + W * z
            if p in span:
                continue
            if all(commute(p, g) for g in gens[:-1]):
                out.append(p)
    return out
