"""C12 - stabilizer measurement reports the true, correctly signed expectation values.

Scenarios: (input state, stabilizer to measure with arbitrary signs and generators, connectivity).  The real stabilizer_measurement_circuit is
built, the spec computes its exact outcome statistics, the real StabilizerMeasurementFitter evaluates them, and Calls.tla (kind stab) requires:
exactly 2^n entries; key set = the sign-free group of the measured stabilizer including the identity; every key unsigned (phase 0); value =
Tr(rho P) - so for a minus-signed group element the entry under the unsigned operator is -1 when the input is the stabilizer state itself.
Inputs: all groups of n = 2, 3 as measured stabilizers (all sign vectors for n = 2) against the state itself and other TLC-generated states and
mixtures; class members for n = 4..6 on all connectivities.
"""
from .. import core, impl, models, par, workers, tomo, sweep
from . import C10

CLAUSES = C10.CLAUSES
ONE, TWO = ("x", "y", "z", "h", "s", "sdg"), ("cx", "cz", "swap")


def run(tier):
    ck = core.Check("C12", tier)
    quick = tier == "quick"
    rng = ck.rng
    files = {"Exported.tla": core.exported_module(impl.lib(), with_tables=False)}
    jobs = []

    def add(n, conn, meas, comps):
        lst = None
        if len(jobs) % 5 == 4:      # the documented explicit form: all qubits listed, in another order (the k-th stabilizer qubit is measured on qubit list[k])
            lst = list(range(n))
            while lst == sorted(lst):
                rng.shuffle(lst)
        jobs.append({"N": n, "m": n, "list": lst, "conn": conn, "comps": comps, "kind": "stab", "meas": meas, "full": rng.random() < 0.7 if lst else True, "dm": n <= 3})

    for n in (2, 3):
        sts = models.clifford_states(ck, n, signed=True, dump=True, invariants=("TypeOK",), names1=("h", "s", "x"), names2=("cx",))
        progs = [s["hist"] for s in sts]
        pick = sts if (n == 2 or not quick) else [sts[i] for i in sorted(rng.sample(range(len(sts)), 200))]
        for s in pick:
            for conn in impl.conns(n):
                # the state itself, measured through another presentation of its group with re-drawn signs
                meas = [c % impl.W2 + impl.W2 * rng.randrange(2) for c in impl.remix(s["tab"], rng)]
                add(n, conn, meas, [[1, s["hist"]]])
                add(n, conn, impl.remix(s["tab"], rng), [[1, rng.choice(progs)]])
                if rng.random() < 0.3:
                    add(n, conn, meas, [[rng.randrange(1, 5), rng.choice(progs)] for _ in range(2)])
    for n in (4, 5, 6):
        progs = [b["hist"] for b in models.simulate_programs(ck, n, 12 if quick else 300, 4 * n + 2, seed=ck.seed + 13 * n, names1=ONE, names2=TWO)]
        inputs = sweep.inputs_classes(ck, n, 1, 1 if quick else 3, rng)
        if quick:
            inputs = [inputs[i] for i in sorted(rng.sample(range(len(inputs)), {4: 30, 5: 40, 6: 40}[n]))]
        for inp in inputs:
            for conn in ([rng.choice(impl.conns(n))] if quick else impl.conns(n)):
                meas = [c % impl.W2 + impl.W2 * rng.randrange(2) for c in inp["codes"]]
                add(n, conn, meas, [[1, inp["program"]]])          # the state itself (up to the re-drawn signs)
                add(n, conn, meas, [[1, rng.choice(progs)]])
    # swaps are the rare structural feature of the shipped circuits (150 tokens in 5962 lines): the graph state of every table line whose circuit contains
    # a swap is measured through a re-signed presentation of its own group, on that line's connectivity, for the state itself and for a generic state
    L_ = impl.lib()
    n_before_swaps = len(jobs)
    for inp in sweep.inputs_table_graphs(L_):
        n, conn = inp["n"], inp["only_conn"]
        try:
            text = L_.circuit_lookup.stabilizer_circuit_lookup(n, conn, inp["rep"][2]).circuit_string
        except Exception:
            continue
        if "swap" not in text:
            continue
        layer = impl.random_local_layer(n, rng)
        codes = impl.remix(impl.apply_gates_codes(layer, inp["codes"]), rng)
        meas = [c % impl.W2 + impl.W2 * rng.randrange(2) for c in codes]
        prog = inp["program"] + layer
        other = [["h", q, -1] for q in range(n) if rng.random() < 0.5] + [["cx", q, (q + 1) % n] for q in range(n) if rng.random() < 0.4] + [["s", q, -1] for q in range(n) if rng.random() < 0.5]
        add(n, conn, meas, [[1, prog]])
        add(n, conn, meas, [[2, prog], [1, other]])
    ck.cov["scenarios_for_table_lines_with_swaps"] = len(jobs) - n_before_swaps
    # textbook states (GHZ, clusters, star, Y-frame states, AME): measured through their own group with re-drawn signs, on every connectivity
    for n in range(2, 7):
        for name, prog in sweep.named_states(n):
            for conn in impl.conns(n):
                jobs.append({"N": n, "m": n, "list": None, "conn": conn, "comps": [[1, prog]], "kind": "stab", "meas": None, "meas_from_prog": prog, "full": True, "dm": n <= 3, "name": name})
    # the group of a named state is obtained from the SPEC (tableau machine run on the program), not computed by the harness
    need = [j for j in jobs if j.get("meas_from_prog") is not None]
    if need:
        recs = [{"op": "tableau", "n": j["N"], "program": j["meas_from_prog"]} for j in need]
        v, st = core.validate_traces("TraceCalls", recs, files=files, what="C12 tableau of named states")
        ck.add_stats("TraceCalls(tableau)", st)
        for j, (cl, out) in zip(need, v):
            tab = [int(x) for x in out]
            j["meas"] = [c % impl.W2 + impl.W2 * rng.randrange(2) for c in impl.remix(tab, rng)]
            del j["meas_from_prog"]
    results = tomo.run_scenarios(ck, jobs, files, rng, "C12")
    C10.report(ck, results, "C12", "stabilizer measurement")
    ck.cov["scenarios"] = len(jobs)
    ck.cov["with_negative_signs"] = sum(1 for j in jobs if any(c >= impl.W2 for c in j["meas"]))
    ck.sample({k: jobs[1][k] for k in ("N", "conn", "meas", "comps")})
    ck.sample({k: jobs[-1][k] for k in ("N", "conn", "meas", "comps")})
    ck.cov["exhaustive"] = False
    ck.cov["exhaustive_parts"] = "n=2: every signed stabilizer state as input with its own group as the measured stabilizer" + ("" if quick else "; n=3 likewise")
    ck.cov["rule"] = "(n, connectivity, measured stabilizer presentation, weighted TLC-generated input programs); every scenario is non-trivial"
    ck.assumptions += ["linearity of the estimator in the counts (see C10)"]
    return ck.finish()


def replay(path):
    return C10.replay(path)
