"""C02 - every delivered circuit uses two-qubit gates only on coupled pairs; coupling graphs as documented.

The guard of CliffordMachine!GateStep is `{a,b} \\in Coupling(n, conn)` with Coupling TRANSCRIBED FROM THE DOCUMENTATION
(Graphs.tla).  Code -> spec, clause `uncoupled` (and `unknown-gate` for anything that is not a documented one- or
two-qubit gate) on: every line of the 20 stabilizer tables and every MUB circuit (exhaustive); composed API outputs
(prep / readout / compress) for members of every class on every connectivity; tomography and stabilizer-measurement
circuits on ordered qubit subsets (guard after mapping through the list; preparation part unchanged; readout part confined to
the listed qubits); `conn_graph` records: get_connectivity_graph(n, c) is the documented graph.
"""
import itertools

from .. import core, impl, sweep, models, par, workers
from . import C17, C09

CLAUSES = {"uncoupled", "unknown-gate"}
# Only what the property states is counted.  The trace spec also evaluates `metadata` (readout part = circuit stored in the ReadoutInfo), `outside`
# (single-qubit gate on an unlisted qubit), `measure` (measure_all layout) - not counted.  If the delivered circuit does not start with the caller's
# preparation circuit (`prep-changed`) the readout part cannot be identified: such a trace is recorded as unjudged, not as a violation.
MEAS_CLAUSES = {"uncoupled", "unknown-gate"}


def run(tier):
    ck = core.Check("C02", tier)
    L = impl.lib()
    quick = tier == "quick"
    rng = ck.rng
    files = {"Exported.tla": core.exported_module(L)}
    # (a) tables ------------------------------------------------------------------------------
    ttr, tmeta, _ = C17.build_traces(L)
    ttr = [t for t in ttr if t["conn"] != ""]
    # (b) MUB circuits ---------------------------------------------------------------------------
    fams = par.pmap(workers.mub_family, impl.SUPPORTED)
    mtr, mmeta = C09.family_traces(fams)
    v, st = core.validate_traces("TraceCircuit", ttr + mtr, files=files, what="C02 table+mub traces")
    ck.add_stats("TraceCircuit(table,mub)", st)
    for t, (cl, _) in zip(ttr + mtr, v):
        key = (t["kind"], t["n"], t["conn"], str(t["gates"]))
        ck.count(key, any(g[2] >= 0 for g in t["gates"]))
        bad = cl & CLAUSES
        if bad:
            ck.violation(f"{t['kind']} {t['n']} {t['conn']} {t['gates']}", f"shipped {t['kind']} circuit for ({t['n']},{t['conn']}) fails {sorted(bad)}: {t['gates']}", {"trace": t, "clauses": sorted(bad)})
        else:
            ck.accepted()
    # (c) composed API outputs ----------------------------------------------------------------------
    inputs = []
    for n in (2, 3, 4):
        inputs += sweep.inputs_classes(ck, n, 2, 2, rng)
    inputs += sweep.inputs_classes(ck, 5, 1 if quick else 4, 1 if quick else 3, rng)
    inputs += sweep.inputs_classes(ck, 6, 1 if quick else 3, 1 if quick else 2, rng)
    inputs = [i for i in inputs if i["graph"] is None]  # the locally rotated members (composition with a layer is what is new here)
    jobs = sweep.expand_jobs(inputs, ["prep", "readout", "compress"], rng)
    jobs += sweep.expand_jobs(sweep.special_programs(ck, ck.seed, quick), ["compress"], rng)      # swap-only circuits; already tailored circuits with swaps
    # one Stabilizer / circuit object passed to every connectivity and API in turn (what it was asked before must not matter)
    traces, verdicts = sweep.run_jobs(ck, L, jobs, "api", sweeps=sweep.conn_sweep_jobs(inputs, ["prep", "readout", "compress"], rng))
    sweep.report(ck, "C02", traces, verdicts, CLAUSES | {"raised"}, trivial=lambda t: not any(g[2] >= 0 for g in t["gates"]))
    # (d) coupling graphs ----------------------------------------------------------------------------
    recs = [workers.conn_graph(c) for c in impl.SUPPORTED]
    v, st = core.validate_traces("TraceCalls", recs, files=files, what="C02 conn_graph", jvms=1)
    ck.add_stats("TraceCalls(conn_graph)", st)
    for r, (cl, _) in zip(recs, v):
        ck.count(("conn_graph", r["n"], r["conn"]))
        if cl:
            ck.violation(f"conn_graph {r['n']} {r['conn']}", f"get_connectivity_graph({r['n']},{r['conn']!r}) has edges {r['edges']}: {sorted(cl)}", {"record": r, "clauses": sorted(cl)})
        else:
            ck.accepted()
    # (e) measurement circuits on ordered qubit subsets -----------------------------------------------
    mjobs = []
    progs = {N: models.simulate_programs(ck, N, 6, 13, seed=ck.seed + N) for N in range(2, 9 if not quick else 8)}
    for m in range(2, 7):
        Ns = [m, m + 1, m + 2] if m <= 3 else [m, m + 1, min(8, m + 2)]
        for N in sorted(set(Ns)):
            if N not in progs:
                continue
            lists = list(itertools.permutations(range(N), m))
            if m <= 3 and N <= m + 2 and not quick:
                chosen = lists
            else:
                k = {2: 12, 3: 8, 4: 4, 5: 3, 6: 2}[m] * (1 if quick else 4)
                chosen = [lists[rng.randrange(len(lists))] for _ in range(k)]
                if N == m:
                    chosen.append(None)
            for lst in chosen:
                for conn in impl.conns(m):
                    if quick and rng.random() < 0.5 and m >= 4:
                        continue
                    prep = progs[N][rng.randrange(len(progs[N]))]["hist"]
                    if m <= 3 or rng.random() < 0.3:
                        mjobs.append({"N": N, "m": m, "list": list(lst) if lst is not None else None, "conn": conn, "prep": prep, "what": "tomo", "codes": None})
                    codes = impl.remix(impl.apply_gates_codes(impl.random_local_layer(m, rng), impl.graph_gens(m, rng.randrange(1 << (m * (m - 1) // 2)))), rng)
                    mjobs.append({"N": N, "m": m, "list": list(lst) if lst is not None else None, "conn": conn, "prep": prep, "what": "stab", "codes": codes})
    # the same requests with a two-register preparation circuit and the qubits given as Qubit objects (documented form)
    extra = []
    for j in mjobs:
        if j["list"] is not None and j["N"] >= 3 and rng.random() < 0.35:
            extra.append(dict(j, registers=rng.randrange(1, j["N"] - 1) if j["N"] > 2 else 1))
    for j in mjobs:
        if j["list"] is not None:
            j["seqtype"] = ["list", "tuple", "ndarray"][rng.randrange(3)]
    mjobs += extra
    core.dbg("meas jobs", len(mjobs))
    res = par.pmap(workers.meas_circuits, mjobs)
    mtraces = []
    for job, lst in zip(mjobs, res):
        for t in lst:
            if t.get("exc"):
                ck.violation(f"meas {job}", f"measurement-circuit API raises {t['exc']} for N={job['N']} list={job['list']} conn={job['conn']}", {"job": job})
            else:
                mtraces.append(t)
    v, st = core.validate_traces("TraceCircuit", mtraces, files=files, what="C02 meas traces")
    ck.add_stats("TraceCircuit(meas)", st)
    for t, (cl, _) in zip(mtraces, v):
        ck.count(("meas", t["n"], tuple(t["list"]), t["conn"], t["what"], t["index"], str(t["prep"])), any(g[2] >= 0 for g in t["gates"][t["preplen"]:]))
        bad = cl & MEAS_CLAUSES
        if "prep-changed" in cl:
            ck.cov["measurement_circuits_unjudged"] = ck.cov.get("measurement_circuits_unjudged", 0) + 1
            continue
        if bad:
            ck.violation(f"meas {t['n']} {t['list']} {t['conn']} {t['what']} {t['index']}", f"{t['what']} measurement circuit N={t['n']} qubits={t['list']} conn={t['conn']} #{t['index']} fails {sorted(bad)}",
                         {"trace": t, "clauses": sorted(bad)})
        else:
            ck.accepted()
    ck.cov["measurement_circuits"] = len(mtraces)
    ck.cov["requests_with_qubit_objects_on_two_registers"] = len(extra)
    ck.cov["asymmetric_lists"] = sum(1 for t in mtraces if t["list"] != sorted(t["list"]))
    ck.sample({k: mtraces[-1][k] for k in ("kind", "n", "m", "list", "conn", "preplen", "gates", "measures")})
    ck.sample({k: traces[-1][k] for k in ("kind", "n", "conn", "target", "gates")})
    ck.cov["exhaustive"] = False
    ck.cov["exhaustive_parts"] = "all 5962 lines of the 20 supported stabilizer tables, all 744 MUB circuits, all 20 coupling graphs"
    ck.cov["rule"] = ("shipped circuits exhaustively; API outputs for locally rotated members of every class on every connectivity; measurement circuits for "
                      "ordered qubit lists (all injective lists for m<=3, N<=m+2 in the thorough tier, seeded otherwise); distinct = (kind, n, conn, circuit / list); "
                      "non-trivial = the delivered (readout) part contains a two-qubit gate")
    return ck.finish()


def replay(path):
    import json
    p = json.load(open(path))["payload"]
    L = impl.lib()
    files = {"Exported.tla": core.exported_module(L)}
    if "trace" in p and p["trace"]["kind"] in ("prep", "readout", "compress"):
        return sweep.replay_trace(path, CLAUSES)
    if "trace" in p:
        t = p["trace"]
        if t["kind"] == "meas":
            lst = workers.meas_circuits({"N": t["n"], "m": t["m"], "list": t["list"], "conn": t["conn"], "prep": t["prep"], "what": t["what"], "codes": None})
            t = lst[min(t["index"], len(lst) - 1)] if t["what"] == "tomo" else t
        v, _ = core.validate_traces("TraceCircuit", [t], files=files, jvms=1)
        print("replayed verdict:", sorted(v[0][0]))
        return 1 if v[0][0] & MEAS_CLAUSES else 0
    if "record" in p:
        r = workers.conn_graph((p["record"]["n"], p["record"]["conn"]))
        v, _ = core.validate_traces("TraceCalls", [r], files=files, jvms=1)
        print("replayed verdict:", r, sorted(v[0][0]))
        return 1 if v[0][0] else 0
    return 1
