"""C06 - the class id is a complete invariant of local-Clifford equivalence.

Model level (TLC): LCOrbits (all graphs, n = 2..6) and LCGroups (all stabilizer groups, n <= 5; n = 6 in the
thorough tier) establish K = 2, 5, 18, 93, 760 and that the support-set key separates classes - once from
harness-computed representatives (untrusted hint, verified by TLC) and once from the representatives the
library associates with the ids (LCClass<n>(id).get_graph()): those must be a system of distinct representatives.
Spec -> code: every dumped TLC state (graph / group) is presented to determine_lc_class, plain and after seeded
local-Clifford layers, generator re-mixing and sign changes.
Code -> spec: every recorded call is a `classify` trace judged by TraceCalls.tla.
"""
import time

from .. import core, impl, tlc, models, orbits, par, workers
from ..tlc import MachineryError

CLAUSES = {"range", "classify", "reid"}


def variants(n, codes, rng, k):
    """k presentations of local-Clifford-equivalent states: local layer + re-mixed generators (signs change too)."""
    out = []
    for _ in range(k):
        layer = impl.random_local_layer(n, rng)
        out.append(impl.remix(impl.apply_gates_codes(layer, codes), rng))
    return out


def run(tier):
    ck = core.Check("C06", tier)
    L = impl.lib()
    rng = ck.rng
    quick = tier == "quick"
    jobs = []      # (n, codes, source, expected rep or None)
    # ---- model level + dumps --------------------------------------------------------------------
    cls = {n: getattr(L.lc_classes, f"LCClass{n}") for n in range(2, 7)}
    for n in range(2, 7):
        K = impl.NUM_CLASSES[n]
        hint = orbits.orbit_reps(n)[0]
        if len(hint) != K:
            raise MachineryError(f"orbit hint for n={n} has {len(hint)} representatives, documented K={K}")
        res, graphs, _ = models.graph_orbits(ck, n, hint, dump=True)
        tlc.require_ok(res, f"LCOrbits n={n}")
        if res.violated_invariant or res.distinct != 2 ** (n * (n - 1) // 2):
            raise MachineryError(f"LCOrbits n={n}: {res.violated_invariant} distinct={res.distinct}")
        ck.add_tlc(f"LCOrbits(N={n}, {K} representatives)", res, note="all graphs reached, key preserved: K classes, key complete on graphs")
        # the representatives the library associates with the ids
        libreps = []
        for i in range(K):
            try:
                libreps.append(int(cls[n](i).get_graph().compress()))
            except Exception as e:
                libreps.append(None)
                ck.violation(f"get_graph n={n} id={i}", f"LCClass{n}({i}).get_graph() raises {type(e).__name__}", {"n": n, "id": i})
        ok_reps = [g for g in libreps if g is not None]
        if len(set(ok_reps)) == K:
            res2, _, _ = models.graph_orbits(ck, n, ok_reps, dump=False)
            bad = (res2.violated_invariant or (not res2.completed) or res2.distinct != 2 ** (n * (n - 1) // 2))
            if res2.completed or res2.violated_invariant or "Assumption" in res2.out:
                ck.add_tlc(f"LCOrbits(N={n}, library representatives)", res2)
            if bad:
                why = "representatives share a key" if "Assumption" in res2.out else f"distinct={res2.distinct} {res2.violated_invariant}"
                ck.violation(f"libreps n={n}", f"LCClass{n}(id).get_graph() for id in 0..{K-1} is not a system of distinct class representatives ({why})",
                             {"n": n, "reps": libreps})
        else:
            ck.violation(f"libreps n={n}", f"LCClass{n}(id).get_graph() yields only {len(set(ok_reps))} distinct graphs for {K} ids", {"n": n, "reps": libreps})
        # graph-level replays
        per = {2: 6, 3: 6, 4: 4, 5: 4 if quick else 12, 6: 1 if quick else 8}[n]
        for g in graphs:
            codes = impl.graph_gens(n, g["g"])
            jobs.append((n, codes, f"graph {g['g']}", g["rep"]))
            for v in variants(n, codes, rng, per):
                jobs.append((n, v, f"graph {g['g']} + local layer", g["rep"]))
        if not quick and n == 6:
            _, rep_of = orbits.orbit_reps(6)
            for r in hint:
                for v in variants(n, impl.graph_gens(n, r), rng, 100):
                    jobs.append((n, v, f"rep {r} + local layer", r))
    # group level: all groups
    for n in ([2, 3, 4] if quick else [2, 3, 4, 5]):
        res, groups = models.group_orbits(ck, n, dump=True)
        tlc.require_ok(res, f"LCGroups n={n}")
        if res.violated_invariant or res.distinct != models.NUM_GROUPS[n]:
            raise MachineryError(f"LCGroups n={n}: {res.violated_invariant} distinct={res.distinct} expected {models.NUM_GROUPS[n]}")
        ck.add_tlc(f"LCGroups(N={n})", res, note="every stabilizer group reached from a graph state by local H/S; key invariant")
        for s in groups:
            jobs.append((n, s["tab"], "group dump", s["rep"]))
            if n <= 4:
                jobs.append((n, impl.remix(s["tab"], rng), "group dump remixed", s["rep"]))
    if quick:
        res, _ = models.group_orbits(ck, 5, dump=False, workers=12)
        tlc.require_ok(res, "LCGroups n=5")
        if res.violated_invariant or res.distinct != models.NUM_GROUPS[5]:
            raise MachineryError(f"LCGroups n=5: {res.violated_invariant} distinct={res.distinct}")
        ck.add_tlc("LCGroups(N=5)", res, note="all 75735 five-qubit groups; key invariant (no dump in quick tier)")
    elif core.budget(3600) >= 1500:
        res, _ = models.group_orbits(ck, 6, dump=False, workers=16)
        if res.completed and not res.violated_invariant and res.distinct == models.NUM_GROUPS[6]:
            ck.add_tlc("LCGroups(N=6)", res, note="all 4922775 six-qubit groups reached from 760 graph states; key invariant")
            ck.cov["n6_group_level_complete"] = True
        elif res.violated_invariant:
            raise MachineryError(f"LCGroups n=6: {res.violated_invariant}")
        else:
            ck.cov["n6_group_level_complete"] = False
            ck.cov["n6_group_level_note"] = f"run did not complete (rc={res.rc}); distinct so far {res.distinct}"
    # neighbour pairs: A, then (in the same process, right after) B = A with only its LAST generator replaced - another valid stabilizer that shares
    # n-1 generators with A and is, as a rule, in another class.  The expected class of B is decided by the spec (classify record), no TLC class known here.
    nb = 0
    for n, count in ((4, 150), (5, 300), (6, 500 if quick else 5000)):
        pool = [j for j in jobs if j[0] == n]
        for _ in range(count):
            (_, codes, src, rep) = pool[rng.randrange(len(pool))]
            cand = impl.neighbour_last_generators(n, codes)
            if not cand:
                continue
            jobs.append((n, list(codes), src + " [pair A]", rep))
            for p in rng.sample(cand, min(3, len(cand))):
                jobs.append((n, list(codes[:-1]) + [p + impl.W2 * rng.randrange(2)], src + " [pair B: last generator replaced]", None))
                nb += 1
    ck.cov["neighbour_pairs"] = nb
    core.dbg('models done', len(jobs))
    # ---- spec -> code: drive the classifier --------------------------------------------------------
    # every third input is presented through ONE long-lived Stabilizer object per worker whose R, S, phases are overwritten (a stale per-object cache shows)
    results = par.pmap(workers.classify, [(n, codes, i % 3 == 0) for i, (n, codes, _, _) in enumerate(jobs)])
    core.dbg('impl done')
    traces = []
    id_of_rep, rep_of_id = {}, {}
    for (n, codes, src, rep), r in zip(jobs, results):
        key = (n, tuple(codes))
        ck.count(key, nontrivial=(rep != 0))
        if r["exc"]:
            ck.violation(f"classify n={n} {codes}", f"determine_lc_class raises {r['exc']} on a valid stabilizer ({src})", {"n": n, "gens": codes, "src": src})
            continue
        traces.append({"op": "classify", "n": n, "gens": codes, "id": r["id"], "reid": r["reid"]})
        if rep is None:
            continue                     # no TLC class known for this input: judged by the classify record alone
        # bijection between ids and TLC classes, independent of get_graph
        a = id_of_rep.setdefault((n, rep), r["id"])
        b = rep_of_id.setdefault((n, r["id"]), rep)
        if a != r["id"] or b != rep:
            ck.violation(f"partition n={n} {codes}", f"id partition differs from LC orbits: n={n} gens={codes} got id {r['id']}, "
                         f"its TLC class (rep {rep}) has id {a}; id {r['id']} also used for rep {b}", {"n": n, "gens": codes, "id": r["id"], "rep": rep})
    for n in range(2, 7):
        ids = sorted(i for (m, i) in rep_of_id if m == n)
        if ids != list(range(impl.NUM_CLASSES[n])):
            ck.violation(f"idset n={n}", f"ids in use for n={n} are not exactly 0..{impl.NUM_CLASSES[n]-1}", {"n": n, "ids": ids})
    # ---- code -> spec ------------------------------------------------------------------------------
    files = {"Exported.tla": core.exported_module(L, with_tables=False)}
    verdicts, stats = core.validate_traces("TraceCalls", traces, files=files, what="C06 classify traces")
    ck.add_stats("TraceCalls(classify)", stats)
    core.dbg('tlc validation done')
    for tr, (clauses, _) in zip(traces, verdicts):
        if "bad-input" in clauses:
            raise MachineryError(f"harness built an invalid stabilizer: {tr}")
        bad = clauses & CLAUSES
        if bad:
            ck.violation(f"classify n={tr['n']} {tr['gens']}", f"classify trace fails {sorted(bad)}: n={tr['n']} gens={tr['gens']} id={tr['id']} reid={tr['reid']}",
                         {"trace": tr, "clauses": sorted(bad)})
        else:
            ck.accepted()
    ck.sample(traces[len(traces) // 2])
    ck.sample(traces[-1])
    ck.cov["exhaustive"] = True
    ck.cov["exhaustive_scope"] = ("all graphs n=2..6 and all stabilizer groups n<=4 (quick) / n<=5 (thorough) replayed into the classifier; "
                                  "local layers / generator choices / signs sampled")
    ck.cov["rule"] = ("inputs = every state of the TLC graph-level (n<=6) and group-level (n<=4|5) orbit models, plus seeded local-Clifford layers with "
                      "re-mixed generators and signs; distinct = (n, generator list); non-trivial = not in the product-state class")
    if not ck.cov.get("n6_group_level_complete"):
        ck.assumptions.append("n = 6 only: every stabilizer group is locally equivalent to a graph state (Van den Nest et al. 2004); "
                              "model-checked for n <= 5 (LCGroups) and for n = 6 when the thorough group-level run completes")
    return ck.finish()


def replay(path):
    import json
    p = json.load(open(path))["payload"]
    L = impl.lib()
    if "trace" in p:
        tr = p["trace"]
        r = workers.classify((tr["n"], tr["gens"]))
        tr = dict(tr, id=r["id"], reid=r["reid"])
        verdicts, _ = core.validate_traces("TraceCalls", [tr], files={"Exported.tla": core.exported_module(L, with_tables=False)}, jvms=1)
        print("replayed:", tr, sorted(verdicts[0][0]))
        return 1 if verdicts[0][0] & CLAUSES else 0
    print("replay payload:", p)
    return 1
