"""C08 - no silent wrong answers: invalid or unsupported requests are rejected.

The DEFINITION of a valid stabilizer is Pauli.tla ValidStabilizer (n commuting, independent Paulis).  Spec -> code: arbitrary operator lists as states of
the builder model PauliLists (all 1024 signed lists for n = 2; n = 3 all 2^18 matrix pairs in the thorough tier, seeded in the quick tier) and seeded
strata for n = 3..6 (valid / commuting but dependent / one anticommuting pair / repeated / zero generator); both the matrix and the string format.
Code -> spec: `request` records judged by Calls.tla: validate() = ValidStabilizer; a returned preparation circuit must be for a valid stabilizer and
prepare a state stabilised by every given signed operator; a returned readout circuit must map every given operator to a Z-type operator; raising is
always acceptable for invalid input.  Configuration gate: every entry point x every (n in 1..8, name in documented names + near misses):
returns iff the pair is one of the 20 advertised ones (`config` records); get_available_connectivities() is exactly that set.
"""
import itertools

from .. import core, impl, tlc, models, par, workers
from ..tlc import MachineryError

CLAUSES = {"validate", "unknown-gate", "prepared-nonstabilizer", "wrong-state", "not-diagonal", "config-gate", "available"}
NAMES = ["all", "linear", "star", "cycle", "T", "Q", "ladder", "E", "H", "allx", "ALL", "", "ring", "Linear", "t", None]


def strata(n, rng, count):
    out = []
    full = (1 << n) - 1
    for k in range(count):
        kind = k % 6
        # start from a valid stabilizer: random graph state + local layer + remix
        g = rng.randrange(1 << (n * (n - 1) // 2))
        codes = impl.remix(impl.apply_gates_codes(impl.random_local_layer(n, rng), impl.graph_gens(n, g)), rng)
        if kind == 1:      # commuting but dependent: replace one generator by a product of two others
            i, j, l = rng.sample(range(n), 3) if n >= 3 else (0, 1, 0)
            codes[i] = impl.mul(codes[j], codes[l]) if j != l else codes[j]
        elif kind == 2:    # independent but one anticommuting pair: hit one generator with a random single-qubit Pauli factor
            i = rng.randrange(n)
            q = rng.randrange(n)
            codes[i] ^= rng.choice([1 << q, 256 << q, (1 << q) | (256 << q)])
        elif kind == 3:    # repeated generator
            i, j = rng.sample(range(n), 2)
            codes[i] = codes[j]
        elif kind == 4:    # zero generator
            codes[rng.randrange(n)] = impl.W2 * rng.randrange(2)
        elif kind == 5:    # arbitrary
            codes = [rng.randrange(full + 1) + impl.W * rng.randrange(full + 1) + impl.W2 * rng.randrange(2) for _ in range(n)]
        out.append(codes)
    return out


def corrupted(L, rng, per_cfg):
    """single-bit corruptions of VALID inputs: the graph state of a table line (literal graph form, on that line's connectivity) or a locally rotated member
    with exactly one matrix bit flipped - almost always a non-stabilizer that is one bit away from something the pipeline handles routinely"""
    out = []
    for (n, conn) in impl.SUPPORTED:
        for _ in range(per_cfg):
            i = rng.randrange(impl.NUM_CLASSES[n])
            try:
                g = int(L.circuit_lookup.stabilizer_circuit_lookup(n, conn, i).graph_id)
            except Exception:
                continue
            codes = impl.graph_gens(n, g)
            if rng.random() < 0.4:
                codes = impl.apply_gates_codes(impl.random_local_layer(n, rng, paulis=False), codes)
            j, q = rng.randrange(n), rng.randrange(n)
            codes = list(codes)
            codes[j] ^= (1 << q) if rng.random() < 0.3 else (256 << q)
            out.append((n, conn, codes))
    return out


def run(tier):
    ck = core.Check("C08", tier)
    quick = tier == "quick"
    rng = ck.rng
    files = {"Exported.tla": core.exported_module(impl.lib(), with_tables=False)}
    # ---- arbitrary operator lists -----------------------------------------------------------------------------
    c = tlc.cfg(init="Init", next_="Next", constants={"N": "2"}, invariants=["Dump"])
    res = tlc.run_tlc("PauliLists", c, workers=4)
    tlc.require_ok(res, "PauliLists")
    lists2 = res.json_lines()
    if len(lists2) != 1024:
        raise MachineryError(f"PauliLists: {len(lists2)}")
    ck.add_tlc("PauliLists(N=2)", res, note="all 16^2 x 4 signed operator lists on two qubits with the spec's validity verdict")
    spec_valid = {}
    jobs = []
    for x in lists2:
        spec_valid[(2, tuple(x["gens"]))] = x["valid"]
        for api in ("prep", "readout"):
            for fmt in ("matrices", "strings"):
                jobs.append({"n": 2, "codes": x["gens"], "fmt": fmt, "api": api, "conn": "all"})
    if quick:
        pool3 = strata(3, rng, 1500) + [[rng.randrange(8) + impl.W * rng.randrange(8) + impl.W2 * rng.randrange(2) for _ in range(3)] for _ in range(2500)]
    else:
        pool3 = []
        budget = core.budget(1500)
        allm = itertools.product(range(64), repeat=3)      # 2^18 sign-free lists (x | z<<3 per generator)
        for t in allm:
            pool3.append([(v & 7) + impl.W * (v >> 3) + impl.W2 * rng.randrange(2) for v in t])
    for codes in pool3:
        for api in ("prep", "readout"):
            jobs.append({"n": 3, "codes": codes, "fmt": "matrices" if rng.random() < 0.7 else "strings", "api": api, "conn": rng.choice(impl.conns(3))})
    for n in (4, 5, 6):
        for codes in strata(n, rng, 600 if quick else 6000):
            for api in ("prep", "readout"):
                jobs.append({"n": n, "codes": codes, "fmt": "matrices" if rng.random() < 0.7 else "strings", "api": api, "conn": rng.choice(impl.conns(n))})
    for (n, conn, codes) in corrupted(impl.lib(), rng, 150 if quick else 1500):
        for api in ("prep", "readout"):
            jobs.append({"n": n, "codes": codes, "fmt": "matrices", "api": api, "conn": conn})
    core.dbg("request jobs", len(jobs))
    recs = par.pmap(workers.request, jobs)
    for r in recs:      # spec -> code: the builder model's own validity verdict
        k = (r["n"], tuple(r["given"]))
        if k in spec_valid and r["validate"] != -1 and bool(r["validate"]) != bool(spec_valid[k]):
            ck.violation(f"validate {r['n']} {r['given']}", f"validate() = {r['validate']} for {r['given']}, the specification says {spec_valid[k]}", {"job": {k2: r[k2] for k2 in ("n", "given", "fmt", "api", "conn")}})
    v, st = core.validate_traces("TraceCalls", recs, files=files, what="C08 request records")
    ck.add_stats("TraceCalls(request)", st)
    outcomes = {"raise": 0, "return": 0}
    for r, (cl, _) in zip(recs, v):
        outcomes[r["outcome"]] += 1
        ck.count(("request", r["n"], tuple(r["given"]), r["fmt"], r["api"], r["conn"]), True)
        bad = cl & CLAUSES
        if bad:
            ck.violation(f"request {r['api']} {r['n']} {r['given']} {r['conn']}", f"{r['api']}({r['given']}, {r['conn']}) [{r['fmt']}] -> {r['outcome']} {r['exc']} fails {sorted(bad)}",
                         {"job": {k2: r[k2] for k2 in ("n", "given", "fmt", "api", "conn")}, "clauses": sorted(bad)})
        else:
            ck.accepted()
    ck.cov["outcomes"] = outcomes
    # ---- design level: the pipeline for arbitrary requests (PipelineFaults.tla), and its admitted outcomes replayed into the code ----------------------
    pbad, admitted = models.pipeline_faults_model(ck, impl.lib(), [(2, "all", "TargetsAll")] + ([] if quick else [(3, "linear", "TargetsSorted"), (3, "all", "TargetsSorted")]))
    for b in pbad:
        ck.violation(f"design {b}", f"the design-level model of the pipeline for arbitrary requests violates {b} with the repository's tables", {"design": b})
    if len(admitted) != 2048:
        raise MachineryError(f"PipelineFaults outcomes for {len(admitted)} requests, expected 2048")
    nadm = 0
    for r in recs:
        k = (r["n"], r["conn"], r["api"], tuple(r["given"]))
        if k in admitted:
            nadm += 1
            ck.count(("admitted", k, r["fmt"]), True)
            o = "done" if r["outcome"] == "return" else "raised"
            if o not in admitted[k]:
                ck.violation(f"design-outcome {r['api']} {r['given']}", f"{r['api']}({r['given']}, {r['conn']}) [{r['fmt']}] -> {r['outcome']} {r['exc']}, but the design model only admits {sorted(admitted[k])}",
                             {"job": {k2: r[k2] for k2 in ("n", "given", "fmt", "api", "conn")}, "clauses": ["design-outcome"], "admitted": sorted(admitted[k])})
            else:
                ck.accepted()
    ck.cov["design_outcomes_replayed"] = nadm
    ck.cov["design_outcome_sets"] = {str(sorted(v)): sum(1 for x in admitted.values() if x == v) for v in ({"done"}, {"raised"}, {"done", "raised"})}
    invalid_returns = sum(1 for r in recs if r["outcome"] == "return" and r["validate"] == 0)
    ck.cov["returned_for_invalid_input"] = invalid_returns
    # malformed string lists
    mal = [["XZ", "ZX", "XX"], ["XZ"], ["XZZ", "ZX"], ["XQ", "ZX"], ["xz", "zx"], ["+-XZ", "ZX"], ["X Z", "ZX"], ["XZ", "-"], ["", ""], ["+XZ", "--ZX"], ["XZI", "ZXI", "IIZ", "ZZZ"]]
    mrecs = [workers.malformed((m, api, "all")) for m in mal for api in ("prep", "readout")]
    mreq = []
    for r in mrecs:
        ck.count(("malformed", str(r["strs"]), r["api"]), True)
        if r["outcome"] == "return":   # judged against the documented denotation of the strings it accepted
            n = r["n"]
            given = [sum(((c in "XY") << q) + (((c in "ZY") << q) * impl.W) for q, c in enumerate(s.lstrip("+-"))) + (impl.W2 if s.startswith("-") else 0) for s in r["strs"]]
            mreq.append({"op": "request", "n": n, "given": given, "api": r["api"], "conn": "all", "fmt": "strings", "outcome": "return", "gates": r["gates"], "validate": -1, "ctorv": -1, "exc": ""})
        else:
            ck.accepted()
    if mreq:
        v2, st = core.validate_traces("TraceCalls", mreq, files=files, what="C08 malformed", jvms=1)
        for r, (cl, _) in zip(mreq, v2):
            if cl & CLAUSES:
                ck.violation(f"malformed {r['given']}", f"malformed string list accepted and answered wrongly: {sorted(cl & CLAUSES)}", {"job": {k2: r[k2] for k2 in ("n", "given", "fmt", "api", "conn")}})
            else:
                ck.accepted()
    # ---- the synthesis helper called directly, with every combination of its flags, on lists of any length -------------------------------------------
    sjobs = []
    for n in (2, 3, 4, 5, 6):
        for k in range((40 if quick else 400) if n <= 4 else (10 if quick else 100)):
            g = rng.randrange(1 << (n * (n - 1) // 2))
            gens = impl.remix(impl.apply_gates_codes(impl.random_local_layer(n, rng), impl.graph_gens(n, g)), rng)
            prods = []
            for _ in range(rng.randrange(0, 3)):       # further elements of the same signed group (redundant but consistent) ...
                p = 0
                for c in rng.sample(gens, rng.randrange(1, n + 1)):
                    p = impl.mul(p, c)
                prods.append(p)
            lst = list(gens)
            kind = k % 5
            if kind == 1:      # ... appended, inserted or in front
                for p in prods:
                    lst.insert(rng.randrange(len(lst) + 1), p)
            elif kind == 2:    # one of them with the WRONG sign (contradicts the others), anywhere - also after n independent ones
                p = (prods or [impl.mul(gens[0], gens[-1])])[0] ^ impl.W2
                lst.insert(rng.choice([len(lst), len(lst), rng.randrange(len(lst) + 1)]), p)
            elif kind == 3:    # fewer than n operators (underconstrained), possibly with a redundant one
                lst = lst[: rng.randrange(1, n)] + prods[:1] * 0
                if rng.random() < 0.5 and len(lst) >= 2:
                    lst.append(impl.mul(lst[0], lst[1]))
            elif kind == 4:    # an operator that anticommutes with one of the others
                q = rng.randrange(n)
                lst.insert(rng.randrange(len(lst) + 1), lst[rng.randrange(len(lst))] ^ rng.choice([1 << q, 256 << q]))
            for flags in ([(0, 0, 0), (1, 0, 0), (1, 1, 0), (0, 1, 1), (1, 1, 1)] if quick else list(itertools.product((0, 1), repeat=3))):
                sjobs.append((n, lst, flags[0], flags[1], flags[2]))
    srecs = par.pmap(workers.synth_flags, sjobs)
    v, st = core.validate_traces("TraceCalls", srecs, files=files, what="C08 synth records")
    ck.add_stats("TraceCalls(synthflags)", st)
    souts = {"raise": 0, "return": 0}
    for r, (cl, _) in zip(srecs, v):
        souts[r["outcome"]] += 1
        ck.count(("synth", r["n"], tuple(r["given"]), r["red"], r["und"], r["invert"]), True)
        bad = cl & CLAUSES
        if bad:
            ck.violation(f"synth {r['n']} {r['given']} {r['red']}{r['und']}{r['invert']}", f"synth_circuit_from_stabilizers({r['given']}, allow_redundant={r['red']}, allow_underconstrained={r['und']}, invert={r['invert']}) "
                         f"returns a circuit that fails {sorted(bad)}", {"sjob": [r["n"], r["given"], r["red"], r["und"], r["invert"]], "clauses": sorted(bad)})
        else:
            ck.accepted()
    ck.cov["synth_outcomes"] = souts
    if souts["return"] == 0 or souts["raise"] == 0:
        raise MachineryError(f"vacuity: synth outcomes {souts}")
    # ---- configuration gate -----------------------------------------------------------------------------------
    cjobs = [(e, n, name) for e in workers.ENTRY_POINTS for n in range(1, 9) for name in NAMES if not ("[subset]" in e and n > 6)]
    # the entry points that take a state: with an entangled state (GHZ) as well as with the computational basis state
    cjobs += [(e, n, name, "ghz") for e in workers.ENTRY_POINTS[:3] + ["full_state_tomography_circuits", "stabilizer_measurement_circuit"] for n in range(2, 9) for name in NAMES]
    crecs = par.pmap(workers.config_gate, cjobs)
    L = impl.lib()
    av = L.connectivity_support.get_available_connectivities()
    crecs.append({"op": "available", "list": [[int(a), str(b)] for a, b in av]})
    v, st = core.validate_traces("TraceCalls", crecs, files=files, what="C08 config records")
    ck.add_stats("TraceCalls(config)", st)
    for r, (cl, _) in zip(crecs, v):
        ck.count(("config", r.get("entry", "available"), r.get("n", 0), r.get("name", ""), r.get("state", "")), True)
        bad = cl & CLAUSES
        if bad:
            if r["op"] == "config":
                ck.violation(f"config {r['entry']} {r['n']} {r['name']}", f"{r['entry']}(n={r['n']}, connectivity={r['name']!r}, state {r.get('state', 'zero')}) -> {r['outcome']} {r['exc']}: fails {sorted(bad)}", {"cjob": [r["entry"], r["n"], r["name"], r.get("state", "zero")], "clauses": sorted(bad)})
            else:
                ck.violation("available", f"get_available_connectivities() = {r['list']} is not the documented set", {"available": r["list"]})
        else:
            ck.accepted()
    ck.cov["config_records"] = len(crecs)
    ck.sample([r for r in recs if r["outcome"] == "raise"][3])
    ck.sample([r for r in recs if r["outcome"] == "return"][3])
    ck.sample(crecs[17])
    ck.cov["exhaustive"] = False
    ck.cov["exhaustive_parts"] = "n=2: all 1024 signed operator lists x 2 APIs x 2 formats" + ("" if quick else "; n=3: all 2^18 sign-free matrix pairs") + "; configuration gate: 13 entry points x n in 1..8 x 16 names"
    ck.cov["rule"] = "distinct = (api, n, operator list, format, connectivity) resp. (entry point, n, name); every case is non-trivial"
    return ck.finish()


def replay(path):
    import json
    p = json.load(open(path))["payload"]
    files = {"Exported.tla": core.exported_module(impl.lib(), with_tables=False)}
    if "job" in p:
        j = p["job"]
        r = workers.request({"n": j["n"], "codes": j["given"], "fmt": j["fmt"], "api": j["api"], "conn": j["conn"]})
    elif "sjob" in p:
        r = workers.synth_flags(tuple(p["sjob"]))
    elif "cjob" in p:
        e, n, name = p["cjob"][:3]
        r = workers.config_gate((e, n, None if name == "<None>" else name) + tuple(p["cjob"][3:]))
    else:
        return 1
    v, _ = core.validate_traces("TraceCalls", [r], files=files, jvms=1)
    print("replayed:", {k: r[k] for k in r if k not in ("gates",)}, sorted(v[0][0]))
    if "admitted" in p:
        o = "done" if r["outcome"] == "return" else "raised"
        print("design model admits", p["admitted"], "- the code:", o)
        if o not in p["admitted"]:
            return 1
    return 1 if v[0][0] & CLAUSES else 0
