"""C17 - every lookup-table entry is internally consistent.

Code -> spec, exhaustive: one `table` trace per line of every stabilizer*-*.txt in the data directory
(the 20 supported tables and any stray file).  The gate list is taken from the library's own
parse_circuit AND from an independent parse of the documented grammar; TraceCircuit.tla replays it
on the tableau machine and checks state, cost, depth, class, vocabulary, indices, coupling, line count.
"""
import os
import re

from .. import core, impl, tlc, workers

TOKEN = re.compile(r"^(h|s|sdg|cx|cz|swap)(\d+)(?:,(\d+))?$")
CLAUSES = {"state", "cost", "depth", "class", "parse", "vocab", "unknown-gate", "uncoupled", "count"}


def independent_parse(text):
    gates = []
    for tok in text.split(" "):
        if tok == "":
            continue
        m = TOKEN.match(tok)
        if not m:
            gates.append(["?" + tok, -1, -1])
            continue
        name, a, b = m.group(1), int(m.group(2)), m.group(3)
        two = name in ("cx", "cz", "swap")
        if two != (b is not None):
            gates.append(["?" + tok, -1, -1])
            continue
        gates.append([name, a, int(b) if two else -1])
    return gates


def table_files(L):
    d = os.path.dirname(L.circuit_lookup.data.__file__)
    out = []
    for f in sorted(os.listdir(d)):
        m = re.match(r"^stabilizer(\d+)-(.+)\.txt$", f)
        if m:
            out.append((int(m.group(1)), m.group(2), os.path.join(d, f)))
    return out


def build_traces(L):
    traces, meta = [], []
    seen_cfg = set()
    for n, conn, path in table_files(L):
        raw = [ln for ln in open(path).read().split("\n") if ln != ""]
        supported = (n, conn) in impl.SUPPORTED
        seen_cfg.add((n, conn))
        K = impl.NUM_CLASSES.get(n, 0)
        for i, line in enumerate(raw):
            parts = line.split(":")
            text = parts[3] if len(parts) == 4 else ""
            filed = -1
            try:
                info = L.circuit_lookup.stabilizer_circuit_lookup(n, conn, i)
                qc1 = info.parse_circuit()
                g1 = impl.gates_of(qc1)
                # the reader is an ordinary caller: it edits the circuit it was given, then looks the entry up and parses it once more; what is judged is
                # the SECOND answer (on a correct loader it equals the first; `again` records whether it did)
                workers.hostile(qc1)
                info = L.circuit_lookup.stabilizer_circuit_lookup(n, conn, i)
                g = impl.gates_of(info.parse_circuit())
                again = g == g1
                graph, cost, depth = int(info.graph_id), int(info.cost), int(info.depth)
                try:    # the class id the library's classifier files the entry's graph state under
                    filed = int(L.lc_classes.determine_lc_class(L.stabilizer.Stabilizer(L.graph.Graph.decompress(n, graph))).id())
                except Exception:
                    filed = -2
            except Exception as e:  # the loader cannot even read the line
                g, graph, cost, depth, again = [["!" + type(e).__name__, -1, -1]], 0, -1, -1, True
            traces.append({"kind": "table", "n": n, "conn": conn if supported else "", "gates": g,
                           "gates2": independent_parse(text), "graph": graph, "cost": cost, "depth": depth,
                           "cls": i if i < K else -1, "nlines": len(raw), "filed": filed, "again": 1 if again else 0})
            meta.append((f"stabilizer{n}-{conn}#{i}", line))
    missing = [c for c in impl.SUPPORTED if c not in seen_cfg]
    return traces, meta, missing


def run(tier):
    ck = core.Check("C17", tier)
    L = impl.lib()
    traces, meta, missing = build_traces(L)
    for (n, c) in missing:
        ck.violation(f"stabilizer{n}-{c}", f"table file for supported configuration ({n},{c}) is missing", {"n": n, "conn": c})
    files = {"Exported.tla": core.exported_module(L)}
    verdicts, stats = core.validate_traces("TraceCircuit", traces, files=files, what="C17 table traces")
    ck.add_stats("TraceCircuit(table)", stats)
    for tr, (key, line), (clauses, extra) in zip(traces, meta, verdicts):
        nontrivial = any(g[2] >= 0 for g in tr["gates"])
        ck.count(key, nontrivial)
        bad = clauses & CLAUSES
        if not tr.get("again", 1):
            bad = bad | {"second-parse-differs"}
        if bad:
            ck.violation(key, f"table line {key} fails {sorted(bad)}: {line[:120]}", {"trace": tr, "clauses": sorted(bad), "line": line})
        else:
            ck.accepted()
    ck.sample({"line": meta[1][0], "trace": traces[1]})
    ck.sample({"line": meta[-1][0], "gates": traces[-1]["gates"][:12], "verdict": sorted(verdicts[-1][0])})
    ck.cov["exhaustive"] = True
    ck.cov["rule"] = ("one trace per line of every stabilizer*-*.txt in the data directory (exhaustive); "
                      "distinct = (file, line index); non-trivial = circuit contains a two-qubit gate")
    ck.cov["files"] = sorted({m[0].split("#")[0] for m in meta})
    ck.assumptions += ["cx token order: first index = control (as the loader implements; the file-format comment says target first)",
                       "class ids are identified through the representative graphs LCClass<n>(id).get_graph() (validated by C06)"]
    return ck.finish()


def replay(path):
    import json
    p = json.load(open(path))["payload"]
    L = impl.lib()
    files = {"Exported.tla": core.exported_module(L)}
    verdicts, _ = core.validate_traces("TraceCircuit", [p["trace"]], files=files, jvms=1)
    print("replayed verdict:", sorted(verdicts[0][0]))
    return 1 if verdicts[0][0] & CLAUSES else 0
