"""C05 - delivered circuits use the minimum possible number of two-qubit gates.

Model checking: Optimality.tla per (n, connectivity): class-level BFS with one worker; the level at which a class is first
visited is the minimal two-qubit count over ALL competitor circuits (argument in the module header).  Quick tier: coset
representatives {I,H,HSH} of the local choices; thorough tier: all 6 x 6 choices, and for n <= 4 the same BFS without
the class VIEW (on all groups) to validate the quotient.  The actual cost of every table circuit is measured by the tableau
machine (TraceCircuit, kind table).  table cost > level is a violation; its witness path is turned into a circuit, validated
by the spec (coupled, cost = level, class = id) and shown against the real code (the library's classifier files the
witness state under the same id, and get_preparation_circuit delivers more two-qubit gates for it).
"""
import json
import re

from .. import core, impl, tlc, models, par, workers
from ..tlc import MachineryError
from . import C17

LOC_WORDS = {0: [], 1: ["h"], 2: ["s"], 3: ["s", "h"], 4: ["h", "s"], 5: ["h", "s", "h"]}


def witness_gates(path):
    gates = []
    for a, b, ca, cb in path:
        gates += [[w, a, -1] for w in LOC_WORDS[ca]]
        gates += [[w, b, -1] for w in LOC_WORDS[cb]]
        gates.append(["cz", a, b])
    return gates


def distances(ck, L, configs, choices, view, label):
    files = {"Exported.tla": core.exported_module(L)}
    jobs = []
    for (n, conn) in configs:
        c = tlc.cfg(spec="Spec", constants={"N": str(n), "Conn": tlc.tla_str(conn), "LocalChoices": choices, "UseView": "TRUE"},
                    invariants=["TypeOK", "Dist"], view=view)
        jobs.append((("Optimality", c), dict(files=files, workers=1, heap="3g", timeout=7200)))
    results = tlc.run_many(jobs, parallel=core.NCPU)
    out = {}
    for (n, conn), res in zip(configs, results):
        tlc.require_ok(res, f"Optimality {n}-{conn}")
        if res.violated_invariant:
            raise MachineryError(f"Optimality {n}-{conn}: {res.violated_invariant}")
        d = {}
        for x in res.json_lines():
            if x.get("k") == "D":
                if x["id"] < 0:
                    raise MachineryError(f"Optimality {n}-{conn}: reached a group whose key matches no representative")
                if x["id"] not in d or x["d"] < d[x["id"]][0]:
                    d[x["id"]] = (x["d"], x["path"])
        if view == "ClassView" and (res.distinct != impl.NUM_CLASSES[n] or len(d) != impl.NUM_CLASSES[n]):
            raise MachineryError(f"Optimality {n}-{conn}: {res.distinct} classes reached, expected {impl.NUM_CLASSES[n]}")
        if view == "GroupView" and res.distinct != models.NUM_GROUPS[n]:
            raise MachineryError(f"Optimality {n}-{conn} (group level): {res.distinct} groups reached, expected {models.NUM_GROUPS[n]}")
        ck.add_tlc(f"Optimality(N={n},{conn},{label})", res, note="BFS level of first visit = minimal two-qubit count")
        out[(n, conn)] = d
    return out


def run(tier):
    ck = core.Check("C05", tier)
    L = impl.lib()
    quick = tier == "quick"
    models.check_gate_laws(ck, 2)
    configs = list(impl.SUPPORTED)
    dist = distances(ck, L, configs, "{0, 1, 5}" if quick else "{0, 1, 2, 3, 4, 5}", "ClassView", "3 cosets" if quick else "36 local choices")
    if not quick:
        d3 = distances(ck, L, configs, "{0, 1, 5}", "ClassView", "3 cosets")
        for cfgk in configs:
            if {i: v[0] for i, v in d3[cfgk].items()} != {i: v[0] for i, v in dist[cfgk].items()}:
                raise MachineryError(f"3-coset reduction gives different distances on {cfgk}")
        ck.cov["coset_reduction_validated"] = True
    small = [c for c in configs if c[0] <= (3 if quick else 4)]
    dg = distances(ck, L, small, "{0, 1, 5}" if quick else "{0, 1, 2, 3, 4, 5}", "GroupView", "group level, no class quotient")
    for cfgk in small:
        if {i: v[0] for i, v in dg[cfgk].items()} != {i: v[0] for i, v in dist[cfgk].items()}:
            raise MachineryError(f"class-level quotient gives different distances than the group-level BFS on {cfgk}")
    ck.cov["quotient_validated_on"] = [f"{n}-{c}" for n, c in small]
    # actual cost of every table circuit, measured by the tableau machine
    ttr, tmeta, _ = C17.build_traces(L)
    keep = [(t, m) for t, m in zip(ttr, tmeta) if t["conn"] != ""]
    files = {"Exported.tla": core.exported_module(L)}
    v, st = core.validate_traces("TraceCircuit", [t for t, _ in keep], files=files, what="C05 table costs")
    ck.add_stats("TraceCircuit(table)", st)
    nonopt = []
    for (t, (key, line)), (cl, extra) in zip(keep, v):
        n, conn, cid = t["n"], t["conn"], t["cls"]
        actual = int(extra.split(",")[0])
        dmin, path = dist[(n, conn)][cid]
        ck.count(key, dmin > 0)
        if cl & {"state", "class", "unknown-gate"}:
            # the table line does not prepare a state of its class: C17's business; optimality cannot be judged
            ck.cov.setdefault("skipped_inconsistent_lines", []).append(key)
            continue
        if actual < dmin:
            raise MachineryError(f"{key}: table circuit has {actual} two-qubit gates but the model says the minimum is {dmin}")
        if actual > dmin:
            nonopt.append((key, n, conn, cid, actual, dmin, path))
        else:
            ck.accepted()
    # witnesses: validated by the spec and shown against the real code
    wtr = [{"kind": "witness", "n": n, "conn": conn, "gates": witness_gates(path), "cost": dmin, "cls": cid}
           for (key, n, conn, cid, actual, dmin, path) in nonopt]
    wv, st = core.validate_traces("TraceCircuit", wtr, files=files, what="C05 witnesses")
    if wtr:
        ck.add_stats("TraceCircuit(witness)", st)
    jobs = [{"api": "prep", "n": t["n"], "conn": t["conn"], "codes": [], "fmt": "circuit", "program": t["gates"]} for t in wtr]
    res = par.pmap(workers.api_call, jobs)
    for (key, n, conn, cid, actual, dmin, path), t, (cl, _), r in zip(nonopt, wtr, wv, res):
        if cl:
            raise MachineryError(f"witness for {key} rejected by the spec: {sorted(cl)}")
        delivered = sum(3 if g[0] == "swap" else 1 for g in r["gates"] if g[2] >= 0)
        if r["exc"] or r["cls"] != cid or delivered <= dmin:
            raise MachineryError(f"witness for {key} does not reproduce against the real code: exc={r['exc']} id={r['cls']} delivered={delivered}")
        ck.violation(key, f"{key} (n={n}, {conn}, class {cid}): delivered circuit has {actual} two-qubit gates, a circuit with {dmin} exists: {t['gates']}",
                     {"key": key, "n": n, "conn": conn, "id": cid, "table_cost": actual, "min_cost": dmin, "witness": t["gates"], "trace": t})
    # the DELIVERED circuits (table circuit composed with a layer, cancelled, sign-repaired): for the graph state of every table line and a locally
    # rotated member, measured by the tableau machine and compared with the minimum of the class the spec assigns to the target
    from .. import sweep
    inputs = sweep.inputs_table_graphs(L)
    extra_in = []
    for inp in inputs:
        if inp["n"] >= 4 and ck.rng.random() < (0.5 if quick else 1.0):
            layer = impl.random_local_layer(inp["n"], ck.rng)
            extra_in.append(dict(inp, codes=impl.remix(impl.apply_gates_codes(layer, inp["codes"]), ck.rng), graph=None, program=inp["program"] + layer))
    # every graph state in literal graph form (generator v = X_v Z_N(v)): all graphs of n <= 5, a seeded sample (thorough: all) of n = 6, on every connectivity
    graph_in = []
    for n in range(2, 7):
        total = 1 << (n * (n - 1) // 2)
        gs = range(total) if (n <= 5 or not quick) else sorted({ck.rng.randrange(total) for _ in range(1500)})
        for g in gs:
            graph_in.append({"n": n, "codes": impl.graph_gens(n, g), "program": sweep.graph_program(n, g), "graph": g, "src": f"graph {g} in graph form"})
    ck.cov["graph_form_inputs"] = len(graph_in)
    jobs2 = sweep.expand_jobs(inputs + extra_in, ["prep"] if quick else ["prep", "readout", "compress"], ck.rng, formats=False)
    jobs2 += sweep.expand_jobs(graph_in, ["prep"], ck.rng, formats=False)
    # nearly optimal, already tailored input circuits containing a swap (a swap counts three): what compress delivers for them is measured as well
    jobs2 += sweep.expand_jobs(sweep.table_plus_swap_programs(L, ck.rng, 8 if quick else 80), ["compress"], ck.rng, formats=False)
    # one Stabilizer / circuit object passed to every connectivity in turn (what it was asked before must not matter)
    traces, verdicts = sweep.run_jobs(ck, L, jobs2, "delivered", sweeps=sweep.conn_sweep_jobs([dict(i, only_conn=None) for i in inputs + extra_in], ["prep", "readout"], ck.rng))
    known_keys = {key for (key, *_rest) in nonopt}
    for t, (cl, extra) in zip(traces, verdicts):
        if t["raised"] or cl & {"state", "diag", "unknown-gate", "uncoupled"}:
            continue                                    # not a correct circuit at all: C01/C02/C03 business
        c, _, line = [int(x) for x in extra.split(",")]
        if line <= 0:
            continue
        key = f"stabilizer{t['n']}-{t['conn']}#{line - 1}"
        dmin = dist[(t["n"], t["conn"])][line - 1][0]
        ck.count(("delivered", t["kind"], key, str(t["target"] or t["program"])), dmin > 0)
        if c < dmin:
            raise MachineryError(f"{key}: delivered {t['kind']} circuit has {c} two-qubit gates, the model says the minimum is {dmin}")
        if c > dmin and key not in known_keys:
            ck.violation("delivered " + key, f"{t['kind']} circuit delivered for a state of class {line - 1} on {t['n']}-{t['conn']} has {c} two-qubit gates, minimum is {dmin} "
                         f"(the table circuit itself is minimal): target {t['target'] or t['program']}", {"trace": t, "delivered": c, "min_cost": dmin})
        elif c == dmin:
            ck.accepted()
    ck.cov["delivered_circuits_measured"] = len(traces)
    ck.cov["non_minimal_entries"] = len(nonopt)
    ck.cov["table_entries"] = len(keep)
    ck.sample({"config": "6-linear", "class": 4, "min_cost": dist[(6, "linear")][4][0], "witness_path": dist[(6, "linear")][4][1]})
    ck.sample({"config": "5-T", "distances": {i: v[0] for i, v in sorted(dist[(5, "T")].items())[:20]}})
    ck.cov["exhaustive"] = True
    ck.cov["rule"] = ("all 5962 (configuration, class) entries; minimal cost = BFS level in the class-level model (exhaustive over all competitor circuits by the "
                      "argument in Optimality.tla); distinct = (table, class id); non-trivial = minimal cost > 0")
    ck.assumptions += ["BFS level = minimal two-qubit count: disjoint gates commute, CX/SWAP are CZ up to single-qubit gates (GateLaws), final local layer does not change the class",
                       ("quick tier: local choices restricted to coset representatives {I,H,HSH} of {I,S} (S commutes with CZ, GateLaws); the thorough tier re-establishes equality "
                        "with the full 36 choices") if quick else "full 6 x 6 local choices",
                       "class ids through LCClass<n>(id).get_graph() (C06)"]
    return ck.finish()


def replay(path):
    p = json.load(open(path))["payload"]
    L = impl.lib()
    t = p["trace"]
    if t["kind"] != "witness":
        from .. import sweep
        return sweep.replay_trace(path, {"cost"})
    v, _ = core.validate_traces("TraceCircuit", [t], files={"Exported.tla": core.exported_module(L)}, jvms=1)
    r = workers.api_call({"api": "prep", "n": t["n"], "conn": t["conn"], "codes": [], "fmt": "circuit", "program": t["gates"]})
    delivered = sum(3 if g[0] == "swap" else 1 for g in r["gates"] if g[2] >= 0)
    print(f"witness accepted by spec: {not v[0][0]}; library class id {r['cls']} (claimed {t['cls']}); library delivers {delivered} two-qubit gates, witness has {t['cost']}")
    return 1 if (not v[0][0] and r["cls"] == t["cls"] and delivered > t["cost"]) else 0
