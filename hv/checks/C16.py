"""C16 - the local-Clifford layer search is sound and complete.

Definitions in the spec (Calls.tla JudgeLayer): a layer is one invertible 2x2 block per qubit; it is sound when it maps every given operator
into the graph state's group; one exists iff some element of the 6^n layers is sound (brute force for n <= 4; for full stabilizers of
n = 5, 6: iff the class keys agree, justified by LCGroups).  Spec -> code: TLC-enumerated groups of n <= 4 against graphs of their own class and
of other classes, partial and dependent operator sets; n = 5, 6 class members against orbit graphs and foreign representatives.
Code -> spec: `layer` records: none only when no layer exists, an exception is neither; a returned layer must be block diagonal with
invertible blocks, sound, and the gate word of local_clifford_layer_to_circuit must realise exactly those blocks (replayed on X_q, Z_q).
"""
from .. import core, impl, models, par, workers, sweep, orbits
from ..tlc import MachineryError

CLAUSES = {"raised", "missed", "not-clifford", "unsound", "circuit"}


def run(tier):
    ck = core.Check("C16", tier)
    quick = tier == "quick"
    rng = ck.rng
    jobs = []
    for n in (2, 3, 4):
        res, groups = models.group_orbits(ck, n, dump=True)
        if res.violated_invariant or res.distinct != models.NUM_GROUPS[n]:
            raise MachineryError(f"LCGroups n={n}: {res.violated_invariant} {res.distinct}")
        ck.add_tlc(f"LCGroups(N={n})", res, note="all groups with their class representative")
        reps, rep_of = orbits.orbit_reps(n)
        members = {}
        for g, r in rep_of.items():
            members.setdefault(r, []).append(g)
        for s in groups:
            tab, rep = s["tab"], s["rep"]
            own = members[rep]
            k_own, k_other = (2, 2) if (quick and n == 4) else (3, 3)
            for g in [own[rng.randrange(len(own))] for _ in range(k_own)]:
                jobs.append((n, impl.remix(tab, rng), g))                                   # exists
            for r2 in [reps[rng.randrange(len(reps))] for _ in range(k_other)]:
                jobs.append((n, tab, members[r2][rng.randrange(len(members[r2]))]))          # usually absent
            # partial / dependent operator sets
            m = rng.randrange(1, n)
            jobs.append((n, tab[:m], own[rng.randrange(len(own))]))
            jobs.append((n, tab[:m] + [impl.mul(tab[0] % impl.W2, tab[m - 1] % impl.W2) if m > 1 else tab[0]], reps[rng.randrange(len(reps))]))
    for n in (5, 6):
        reps, rep_of = orbits.orbit_reps(n)
        members = {}
        for g, r in rep_of.items():
            members.setdefault(r, []).append(g)
        for inp in sweep.inputs_classes(ck, n, 2 if quick else 5, 1 if quick else 3, rng):
            own = members[inp["rep"]]
            jobs.append((n, inp["codes"], own[rng.randrange(len(own))]))
            jobs.append((n, inp["codes"], reps[rng.randrange(len(reps))]))
            if not quick:
                jobs.append((n, inp["codes"], rng.randrange(1 << (n * (n - 1) // 2))))
    # partial operator sets on 5 and 6 qubits: m < n elements of a graph state's group pulled back through a known local layer, which is handed to the spec
    # as a WITNESS (the spec checks that it is sound, so existence is established by the spec; the search must then not answer None)
    BLOCKS = [[1, 0, 0, 1], [0, 1, 1, 0], [1, 0, 1, 1], [1, 1, 1, 0], [0, 1, 1, 1], [1, 1, 0, 1]]
    INV = [0, 1, 2, 4, 3, 5]
    for n in (5, 6):
        reps, rep_of = orbits.orbit_reps(n)
        graphs = list(reps[:: (8 if quick else 1)]) + [rng.randrange(1 << (n * (n - 1) // 2)) for _ in range(40 if quick else 800)]
        for g in graphs:
            gens = impl.graph_gens(n, g)
            for m in (1, 2, 3) if quick else (1, 2, 3, 4, 5)[: n - 1]:
                els = []
                while len(els) < m:
                    p = 0
                    for k in range(n):
                        if rng.random() < (1.0 / n if len(els) % 2 == 0 else 0.5):
                            p = impl.mul(p, gens[k])
                    if p % impl.W2 and p % impl.W2 not in els:
                        els.append(p % impl.W2)
                cls = [rng.randrange(6) if rng.random() < 0.6 else 0 for _ in range(n)]
                P = els
                for q in range(n):          # pull the operators back through the layer: apply the inverse class on every qubit
                    P = impl.apply_gates_codes([[w, q, -1] for w in impl.LOCAL_WORDS[INV[cls[q]]]], P)
                jobs.append((n, [p % impl.W2 for p in P], g, [BLOCKS[c] for c in cls]))
    core.dbg("layer jobs", len(jobs))
    recs = par.pmap(workers.layer_search, jobs)
    files = {"Exported.tla": core.exported_module(impl.lib(), with_tables=False)}
    verdicts, stats = core.validate_traces("TraceCalls", recs, files=files, what="C16 layer records", heap="3g")
    ck.add_stats("TraceCalls(layer)", stats)
    kinds = {"none": 0, "layer": 0, "raise": 0}
    for r, (cl, _) in zip(recs, verdicts):
        kinds[r["res"]] += 1
        ident = r["res"] == "layer" and all(b == [1, 0, 0, 1] for b in r["blocks"])
        ck.count((r["n"], tuple(r["P"]), r["g"]), not ident and r["g"] != 0)
        bad = cl & CLAUSES
        if "bad-input" in cl:
            raise MachineryError(f"harness handed over an unsound witness layer: {r}")
        if bad:
            ck.violation(f"layer {r['n']} {r['P']} {r['g']}", f"find_local_clifford_layer(n={r['n']}, P={r['P']} as {r['dtype']} matrices, graph {r['g']}) -> {r['res']} {r['blocks'] or r['exc']} fails {sorted(bad)}",
                         {"job": [r["n"], r["P"], r["g"], r["witness"], r["dtype"]], "clauses": sorted(bad)})
        else:
            ck.accepted()
    ck.cov["results"] = kinds
    ck.cov["array_types"] = {d: sum(1 for r in recs if r["dtype"] == d) for d in sorted({r["dtype"] for r in recs})}
    if kinds["layer"] == 0 or (kinds["none"] + kinds["raise"]) == 0:
        raise MachineryError(f"vacuity: results {kinds}")
    ck.sample([r for r in recs if r["res"] == "layer"][5])
    ck.sample([r for r in recs if r["res"] != "layer"][0])
    ck.cov["exhaustive"] = False
    ck.cov["exhaustive_parts"] = "every stabilizer group of n<=4 appears as operator set (graphs sampled per group)"
    ck.cov["rule"] = ("(operator set, graph) pairs: every group of n<=4 against graphs of its own and of other classes plus partial/dependent subsets; class members of n=5,6 "
                      "against orbit members and foreign representatives; distinct = (n, operators, graph); non-trivial = not (identity layer or empty graph)")
    ck.assumptions.append("n=5,6 full stabilizers: a layer exists iff the class keys agree (model-checked: LCGroups n<=5; n=6 in C06 thorough)")
    return ck.finish()


def replay(path):
    import json
    p = json.load(open(path))["payload"]
    r = workers.layer_search(tuple(p["job"]))
    v, _ = core.validate_traces("TraceCalls", [r], files={"Exported.tla": core.exported_module(impl.lib(), with_tables=False)}, jvms=1)
    print("replayed:", r["res"], r["blocks"] or r["exc"], "verdict:", sorted(v[0][0]))
    return 1 if v[0][0] & CLAUSES else 0
