"""C07 - circuit compression preserves the prepared state for every Clifford circuit.

Spec -> code: input programs are behaviours of the tableau machine with the full documented vocabulary
(i x y z h s sdg cx cz swap on arbitrary pairs): (a) transition coverage - the complete labelled state graph for n = 2
(and n = 3 in the thorough tier), every transition replayed as `shortest path to its source + that gate`; one program per
state for n = 3; (b) TLC -simulate behaviours of many lengths for n = 2..6.
Code -> spec: trace kind `compress`: the spec computes the state of the input program itself and requires the
compressed circuit to reach exactly that signed group from |0..0> (global phase is invisible), to be coupled, to have
the table cost of the state's class, and the input circuit to be unchanged.
"""
from .. import core, impl, sweep, models

CLAUSES = {"state", "cost", "uncoupled", "args-mutated", "raised", "unknown-gate", "no-class", "mutated-after-return"}
ONE = ("i", "x", "y", "z", "h", "s", "sdg")
TWO = ("cx", "cz", "swap")


def run(tier):
    ck = core.Check("C07", tier)
    L = impl.lib()
    quick = tier == "quick"
    rng = ck.rng
    models.check_gate_laws(ck, 2)
    progs = []   # (n, program, src)
    # (a) transition coverage
    for n in ([2] if quick else [2, 3]):
        states, trans = models.clifford_transitions(ck, n, ONE, TWO)
        path = {tuple(s["tab"]): s["hist"] for s in states}
        # canonical path per group: states are keyed by tableau; transitions name src tableau reached first
        for t in trans:
            src = tuple(t["src"])
            if src in path:
                progs.append((n, path[src] + [t["g"]], f"transition n={n}"))
    if quick:
        states = models.clifford_states(ck, 3, signed=True, dump=True, invariants=("TypeOK",), names1=ONE, names2=TWO)
        for s in states:
            progs.append((3, s["hist"], "state path n=3"))
    # (b) simulated behaviours
    lengths = [3, 12, 40, 120] if quick else [2, 5, 12, 25, 40, 80, 120, 200]
    num = 10 if quick else 150
    for n in range(2, 7):
        for d in lengths:
            for b in models.simulate_programs(ck, n, num, d + 1, seed=ck.seed * 1000 + n * 10 + d, names1=ONE, names2=TWO):
                progs.append((n, b["hist"], f"simulated behaviour n={n} len={len(b['hist'])}"))
    inputs = [{"n": n, "codes": [], "program": p, "graph": None, "src": src} for (n, p, src) in progs]
    # the textbook graph-state program of every table line on that line's connectivity: every class x connectivity is compressed at least once
    inputs += [dict(i, codes=[]) for i in sweep.inputs_table_graphs(L)]
    # swap-only circuits on every connectivity; already tailored short circuits containing swaps on their own connectivity
    special = sweep.special_programs(ck, ck.seed, quick) + sweep.table_plus_swap_programs(L, rng, 12 if quick else 120)
    inputs += special
    ck.cov["special_programs"] = len(special)
    if quick:   # simulated programs on every connectivity; n=2,3 graph programs on every connectivity
        jobs = sweep.expand_jobs(inputs, ["compress"], rng)
    else:
        jobs = sweep.expand_jobs(inputs, ["compress"], rng)
    # one circuit object compressed for every connectivity in turn (what it was asked before must not matter)
    cinputs = [dict(i, codes=[0]) for i in inputs if not i.get("only_conn") and len(i["program"]) <= 60]
    traces, verdicts = sweep.run_jobs(ck, L, jobs, "compress", sweeps=sweep.conn_sweep_jobs(cinputs, ["compress"], rng, per_n={2: 3, 3: 6, 4: 6, 5: 6, 6: 6}))
    sweep.report(ck, "C07", traces, verdicts, CLAUSES, trivial=lambda t: not any(g[2] >= 0 for g in t["program"]))
    ck.cov["max_program_length"] = max(len(t["program"]) for t in traces)
    ck.cov["programs"] = len(progs)
    for t in (traces[5], traces[len(traces) // 2], traces[-1]):
        ck.sample({k: t[k] for k in ("kind", "n", "conn", "program", "gates", "src")})
    ck.cov["exhaustive"] = False
    ck.cov["exhaustive_parts"] = "n=2: every (state, gate) transition of the full-vocabulary machine" + ("" if quick else "; n=3 likewise")
    ck.cov["rule"] = ("programs = behaviours of CliffordMachine over the full vocabulary (complete transition graph for small n, TLC -simulate for n<=6, lengths up to "
                      f"{max(lengths)}), each on every supported connectivity; distinct = (n, conn, gate list); non-trivial = program has a two-qubit gate")
    ck.assumptions.append("unbounded program length is explored up to the stated maximum only")
    return ck.finish()


def replay(path):
    return sweep.replay_trace(path, CLAUSES)
