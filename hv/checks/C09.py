"""C09 - MUB families are complete, index-aligned with their circuits and cost-truthful.

Exhaustive over the 20 configurations.  Code -> spec: (i) one `mub` trace per (basis i, circuit i): the tableau machine is
loaded with the basis (denoted by the spec from the Pauli strings), the circuit's gates are its behaviour, the return
event requires all 2^n group elements to be Z-type and every two-qubit gate to be coupled; (ii) one `mubfam` record per
configuration judged by Calls.tla: 2^n+1 bases and circuits, every basis a valid stabilizer, sign-free groups pairwise
disjoint and covering all 4^n-1 Paulis, info dictionary = actual max/avg cost and max depth (spec's own cost model),
no MUB circuit costlier than the library's readout circuit for the same basis.
"""
from .. import core, impl, par, workers
from ..tlc import MachineryError

CIRC_CLAUSES = {"diag", "basis", "unknown-gate", "uncoupled"}
FAM_CLAUSES = {"count", "basis", "disjoint", "complete", "info-num", "info-maxcost", "info-maxdepth", "info-avg", "worse-than-readout"}


def family_traces(fams):
    traces, meta = [], []
    for f in fams:
        if f["exc"]:
            continue
        for i, (b, c) in enumerate(zip(f["bases"], f["circuits"])):
            traces.append({"kind": "mub", "n": f["n"], "conn": f["conn"], "basis": b, "gates": c, "cost": -1, "pass": f.get("pass", 1)})
            meta.append((f["n"], f["conn"], i))
    return traces, meta


def run(tier):
    ck = core.Check("C09", tier)
    L = impl.lib()
    fams = par.pmap(workers.mub_family, impl.SUPPORTED)
    # every configuration is asked twice in one process, the caller scribbling over everything it was given in between: the second answer is a family like the first
    fams = fams + [f["again"] for f in fams if f.get("again")]
    for f in fams:
        if f["exc"]:
            ck.violation(f"mub {f['n']} {f['conn']}", f"MUB API raises for supported configuration ({f['n']},{f['conn']}): {f['exc']}", {"n": f["n"], "conn": f["conn"]})
    traces, meta = family_traces(fams)
    files = {"Exported.tla": core.exported_module(L, with_tables=False)}
    verdicts, stats = core.validate_traces("TraceCircuit", traces, files=files, what="C09 mub traces")
    ck.add_stats("TraceCircuit(mub)", stats)
    for t, (n, conn, i), (cl, _) in zip(traces, meta, verdicts):
        ck.count((n, conn, i, t.get("pass", 1)), any(g[2] >= 0 for g in t["gates"]))
        bad = cl & CIRC_CLAUSES
        if bad:
            ck.violation(f"mub {n} {conn} #{i}", f"MUB circuit {i} of ({n},{conn}){' [second request, after the caller modified the first answer]' if t.get('pass', 1) == 2 else ''} fails {sorted(bad)}: basis {[''.join(s) for s in t['basis']]}", {"trace": t, "clauses": sorted(bad)})
        else:
            ck.accepted()
    recs = [{"op": "mubfam", "n": f["n"], "bases": f["bases"], "circuits": f["circuits"], "readouts": f["readouts"], "info": f["info"]} for f in fams if not f["exc"]]
    v2, st2 = core.validate_traces("TraceCalls", recs, files=files, what="C09 family records", jvms=min(len(recs), core.NCPU))
    ck.add_stats("TraceCalls(mubfam)", st2)
    for r, f, (cl, _) in zip(recs, [f for f in fams if not f["exc"]], v2):
        ck.count(("fam", f["n"], f["conn"], f.get("pass", 1)))
        bad = cl & FAM_CLAUSES
        if not set(["num circuits", "max two-qubit count", "max two-qubit depth", "average two-qubit count"]) <= set(f["info_keys"]):
            bad = bad | {"info-keys"}        # the four documented keys must be present (further keys are harmless)
        if bad:
            ck.violation(f"mubfam {f['n']} {f['conn']}", f"MUB family ({f['n']},{f['conn']}){' [second request, after the caller modified the first answer]' if f.get('pass', 1) == 2 else ''} fails {sorted(bad)}; info={f['info']}", {"record": {k: r[k] for k in ('op', 'n', 'info')}, "n": f["n"], "conn": f["conn"], "clauses": sorted(bad)})
        else:
            ck.accepted()
    ck.sample({"trace": traces[3]})
    ck.sample({"family": {"n": recs[0]["n"], "bases": ["".join(s) for b in recs[0]["bases"] for s in b], "info": recs[0]["info"]}})
    ck.cov["exhaustive"] = True
    ck.cov["rule"] = ("all 20 supported configurations, all 2^n+1 (basis, circuit) pairs (1368 circuits), all 2^n group elements each; "
                      "distinct = (n, conn, index); non-trivial = circuit has a two-qubit gate")
    return ck.finish()


def replay(path):
    import json
    p = json.load(open(path))["payload"]
    n, conn = (p["trace"]["n"], p["trace"]["conn"]) if "trace" in p else (p["n"], p["conn"])
    L = impl.lib()
    f = workers.mub_family((n, conn))
    files = {"Exported.tla": core.exported_module(L, with_tables=False)}
    traces, meta = family_traces([f])
    v, _ = core.validate_traces("TraceCircuit", traces, files=files, jvms=1)
    rec = {"op": "mubfam", "n": n, "bases": f["bases"], "circuits": f["circuits"], "readouts": f["readouts"], "info": f["info"]}
    v2, _ = core.validate_traces("TraceCalls", [rec], files=files, jvms=1)
    bad = [(m, sorted(c & CIRC_CLAUSES)) for m, (c, _) in zip(meta, v) if c & CIRC_CLAUSES]
    print("replayed:", bad, sorted(v2[0][0] & FAM_CLAUSES))
    return 1 if bad or (v2[0][0] & FAM_CLAUSES) else 0
