"""C03 - the readout circuit diagonalises the whole stabilizer group, independently of signs; its inverse prepares
the state up to signs.

Same TLC-generated inputs as C01.  Trace kind `readout`: the tableau machine is loaded with the requested signed
group, the delivered gates are applied, and the return event requires every one of the 2^n group elements to be
Z-type; the circuit returned for the same generators with other signs must be identical; the spec inverts the
delivered circuit itself and requires it to prepare the group modulo signs.
"""
from .. import core, impl, sweep
from . import C01

CLAUSES = {"diag", "inverse", "sign-dep", "raised", "unknown-gate", "mutated-after-return"}


def run(tier):
    ck = core.Check("C03", tier)
    L = impl.lib()
    inputs = C01.build_inputs(ck, tier, ck.rng)
    jobs = sweep.expand_jobs(inputs, ["readout"], ck.rng)
    # a caller who edits a preparation circuit it was given must not influence later readout circuits of the same class: for the graph state of every
    # table line (n = 5, 6) request the preparation circuit (the worker then scribbles over it) and then the readout circuit of a locally rotated member
    for inp in sweep.inputs_table_graphs(L, ns=(5, 6)):
        if ck.rng.random() < (0.35 if tier == "quick" else 1.0):
            j = dict(inp, api="prep", conn=inp["only_conn"], fmt="graph")
            layer = impl.random_local_layer(inp["n"], ck.rng)
            k = dict(inp, api="readout", conn=inp["only_conn"], fmt="matrices", codes=impl.apply_gates_codes(layer, inp["codes"]), graph=None, program=None)
            k["alt"] = [c % impl.W2 + impl.W2 * ck.rng.randrange(2) for c in k["codes"]]
            jobs += [j, k]
    sweeps = sweep.sign_sweep_jobs(inputs, "readout", ck.rng)
    traces, verdicts = sweep.run_jobs(ck, L, jobs, "readout", sweeps=sweeps)
    ck.cov["sign_sweeps_in_one_process"] = len(sweeps)
    pairs = [(t, v) for t, v in zip(traces, verdicts) if t["kind"] == "readout"]
    sweep.report(ck, "C03", [p[0] for p in pairs], [p[1] for p in pairs], CLAUSES)
    alt = sum(1 for t in traces if t["hasalt"] and t["alt"] == t["gates"] and any(a != b for a, b in zip(t["target"], [c % impl.W2 for c in t["target"]])))
    ck.cov["traces_with_second_sign_vector"] = sum(t["hasalt"] for t in traces)
    if not any(t["hasalt"] for t in traces):
        raise core.MachineryError("vacuity: no readout trace with an alternative sign vector")
    for t in (traces[3], traces[len(traces) // 2], traces[-1]):
        ck.sample({k: t[k] for k in ("kind", "n", "conn", "fmt", "target", "gates", "alt", "src")})
    ck.cov["exhaustive"] = False
    ck.cov["rule"] = ("same inputs as C01 (TLC-enumerated states, every supported connectivity), each with a second seeded sign vector; "
                      "distinct = (n, conn, generator list, format); non-trivial = not (product class with all signs +)")
    return ck.finish()


def replay(path):
    return sweep.replay_trace(path, CLAUSES)
