"""C04 - two-qubit cost and depth depend only on the LC class and equal the reported metadata.

The tableau machine keeps the bookkeeping (cost: cx, cz = 1, swap = 3; lvl: ASAP two-qubit level per qubit).  At the
return event of every prep / readout / compress trace the spec determines the class of the target itself
(ClassIds) and requires cost and depth to equal the metadata the library's lookup reports for THAT class and
connectivity (Exported.TableOf), and the logged lookup result to be that entry.  Inputs: members of every class
of n = 2..6 presented with different local layers, signs and generators (LCOrbits dumps), on every connectivity.
Batch level: the (cost, depth) pairs observed for one (n, connectivity, class) must be single-valued.
"""
import re

from .. import core, impl, sweep, models

# `lookup` / `classify` / `layer` (logged internal events) are diagnostics of the trace spec, not part of this property
CLAUSES = {"cost", "depth", "no-class", "raised"}


def run(tier):
    ck = core.Check("C04", tier)
    L = impl.lib()
    quick = tier == "quick"
    rng = ck.rng
    inputs = []
    for n in (2, 3, 4):
        inputs += sweep.inputs_classes(ck, n, 3, 3, rng)
    inputs += sweep.inputs_classes(ck, 5, 2 if quick else 6, 1 if quick else 3, rng)
    inputs += sweep.inputs_classes(ck, 6, 1 if quick else 4, 1 if quick else 3, rng)
    inputs += sweep.inputs_table_graphs(L)       # every table line's own graph state on its own connectivity
    jobs = sweep.expand_jobs(inputs, ["prep", "readout", "compress"], rng)
    # one Stabilizer / circuit object passed to every connectivity and API in turn (what it was asked before must not matter)
    traces, verdicts = sweep.run_jobs(ck, L, jobs, "cost", sweeps=sweep.conn_sweep_jobs(inputs, ["prep", "readout", "compress"], rng))
    sweep.report(ck, "C04", traces, verdicts, CLAUSES, trivial=lambda t: not any(g[2] >= 0 for g in t["gates"]))
    seen = {}
    for t, (cl, extra) in zip(traces, verdicts):
        if t["raised"]:
            continue
        m = re.match(r"^(\d+), (\d+), \d+$", extra or "")
        if not m:
            raise core.MachineryError(f"verdict without bookkeeping: {extra!r}")
        if isinstance(t["rep"], (list, tuple)):
            continue                     # table-line inputs are judged by their clauses; single-valuedness is tracked per orbit representative
        key = (t["n"], t["conn"], t["rep"])
        val = (int(m.group(1)), int(m.group(2)))
        first = seen.setdefault(key, (val, t))
        if first[0] != val:
            ck.violation(f"single-valued {key}", f"class of graph {t['rep']} (n={t['n']}, {t['conn']}): (cost, depth) {val} for {t['kind']} {t['target'] or t['program']} "
                         f"but {first[0]} for {first[1]['kind']} {first[1]['target'] or first[1]['program']}", {"trace": t, "other": first[1], "clauses": ["single-valued"]})
    ck.cov["classes_x_connectivities_observed"] = len(seen)
    expected = sum(impl.NUM_CLASSES[n] for (n, c) in impl.SUPPORTED)
    ck.cov["classes_x_connectivities_total"] = expected
    if len(seen) != expected:
        raise core.MachineryError(f"class coverage incomplete: {len(seen)} of {expected}")
    for t in (traces[10], traces[len(traces) // 2], traces[-1]):
        ck.sample({k: t[k] for k in ("kind", "n", "conn", "target", "program", "gates", "graph", "cost", "depth", "src")})
    ck.cov["exhaustive"] = False
    ck.cov["rule"] = ("every class of every supported configuration (5962 class x connectivity pairs), several members per class (orbit graphs, seeded local layers "
                      "incl. Pauli gates, re-mixed generators), three APIs; distinct = (api, n, conn, generators | program, format); non-trivial = circuit has a two-qubit gate")
    return ck.finish()


def replay(path):
    return sweep.replay_trace(path, CLAUSES)
