"""C10 - full-state tomography reconstructs every state exactly from exact statistics.

TLA+ cannot quantify over the continuum of density matrices.  Reduction (DESIGN 5/C10): the fitter reports sigma * Parity(p_i, s) under key P;
since Parity(p_i, s) = Tr(rho U_i^dagger Z^s U_i), the report is right for ALL rho iff sigma * U_i^dagger Z^s U_i = P as signed operators
(Paulis are a basis, everything is linear in rho), and rho is exact iff the keys are all 4^n Paulis once.  Checked here:
 (a) `fitter` records: the real StabilizerMeasurementFitter on ARBITRARY integer count dictionaries (sparse, unnormalised, register blanks) -
     the spec pulls Z^s back through the readout circuit itself (Gates.PullBack) and predicts every entry as an exact rational;
     exhaustive over all circuits of all 20 configurations with probe dictionaries, i.e. all 4^n - 1 (key, mask, sign) triples;
 (b) `tomo` records end to end: TLC-generated stabilizer states and integer mixtures of them -> real tomography circuits -> exact statistics
     computed by the spec's measurement semantics (Tomography.tla) -> real FullStateTomographyFitter -> all 4^n values = Tr(rho P);
 (c) the density matrix (the only floating point step) is cross-checked numerically against 2^-n sum <P> P.
"""
from .. import core, impl, models, par, workers, tomo
from ..tlc import MachineryError

CLAUSES = {"entries", "signed-key", "keys", "value"}
ONE, TWO = ("x", "y", "z", "h", "s", "sdg"), ("cx", "cz", "swap")


def random_counts(n, rng):
    style = rng.randrange(5)
    if style == 4:      # nearly uniform statistics: every outcome, counts 1000 +- 2 (expectation values of the order 1e-4 .. 1e-3, none of them zero by accident)
        return {format(b, f"0{n}b"): 1000 + rng.randrange(-2, 3) for b in range(2 ** n)}
    keys = set()
    k = {0: 1, 1: 2, 2: rng.randrange(2, 2 ** n + 1), 3: 2 ** n}[style]
    while len(keys) < min(k, 2 ** n):
        keys.add(rng.randrange(2 ** n))
    out = {}
    for b in keys:
        s = format(b, f"0{n}b")
        out[s] = rng.randrange(1, 1000)      # over the qubits; workers.device_counts formats the keys by the delivered circuit's own measurement layout
    return out


def report(ck, results, prop, what):
    for job, b, tcl, fcl in results:
        key = (what, job["N"], job["m"], tuple(job["list"] or []), job["conn"], job["kind"], job["full"], str(job["comps"]), str(job.get("meas")))
        ck.count(key, True)
        small = {k: job[k] for k in ("N", "m", "list", "conn", "kind", "full", "comps", "meas", "argform", "countform") if k in job}
        if b.get("exc"):
            ck.violation(f"{what} {key}", f"{what}: tomography API raises {b['exc']} for {small}", {"job": small})
            continue
        bad = {c for c in tcl if c.split(":")[-1] in CLAUSES}
        for i, c in enumerate(fcl):
            if c & CLAUSES:
                bad = bad | {f"fitter[{i}]:" + ",".join(sorted(c & CLAUSES))}
        if not b["dm_ok"]:
            bad = bad | {"density-matrix"}
        if bad:
            ck.violation(f"{what} {key}", f"{what}: N={job['N']} qubits={job['list']} (arguments held as: {job.get('argform', 'list')}) conn={job['conn']} kind={job['kind']} full={job['full']} fails {sorted(bad)}", {"job": small, "clauses": sorted(bad)})
        else:
            ck.accepted(1 + len(fcl))


def run(tier):
    ck = core.Check("C10", tier)
    quick = tier == "quick"
    rng = ck.rng
    files = {"Exported.tla": core.exported_module(impl.lib(), with_tables=False)}
    models.check_gate_laws(ck, 2)
    # (a) arbitrary dictionaries + probe dictionaries on every circuit of every configuration
    fjobs = []
    for (n, conn) in impl.SUPPORTED:
        ncirc = 2 ** n + 1
        idxs = range(ncirc)          # every circuit of every configuration (744 circuits): all 4^n - 1 (key, mask, sign) triples
        for i in idxs:
            fjobs.append({"N": n, "m": n, "list": None, "conn": conn, "index": i, "kind": "full", "meas": None, "counts": random_counts(n, rng), "full": True, "countform": ("int", "float", "np")[i % 3]})
    frecs = par.pmap(workers.fitter_counts, fjobs)
    for r in frecs:
        if r["exc"]:
            ck.violation(f"fitter {r['N']} {r['counts']}", f"StabilizerMeasurementFitter raises {r['exc']}", {"record": r})
    fgood = [r for r in frecs if not r["exc"]]
    v, st = core.validate_traces("TraceCalls", fgood, files=files, what="C10 fitter records", heap="3g")
    ck.add_stats("TraceCalls(fitter)", st)
    for r, (cl, _) in zip(fgood, v):
        ck.count(("fitter", r["N"], str(r["ro"]), str(r["counts"])), len(r["counts"]) > 1)
        bad = cl & CLAUSES
        if bad:
            ck.violation(f"fitter {r['N']} {r['ro']} {r['counts']}", f"fitter on counts {[(''.join(k), c) for k, c in r['counts']][:6]} (n={r['N']}, readout {r['ro'][:8]}..) fails {sorted(bad)}", {"record": r, "clauses": sorted(bad)})
        else:
            ck.accepted()
    # (b) end to end
    jobs = []
    s2 = models.clifford_states(ck, 2, signed=True, dump=True, invariants=("TypeOK",), names1=("h", "s", "x"), names2=("cx",))
    for s in s2:
        jobs.append({"N": 2, "m": 2, "list": None, "conn": "all", "comps": [[1, s["hist"]]], "kind": "full", "meas": None, "full": True, "dm": True})
    s3 = models.clifford_states(ck, 3, signed=True, dump=True, invariants=("TypeOK",), names1=("h", "s", "x"), names2=("cx",))
    pick3 = s3 if not quick else [s3[i] for i in sorted(rng.sample(range(len(s3)), 150))]
    for s in pick3:
        for conn in impl.conns(3):
            jobs.append({"N": 3, "m": 3, "list": None, "conn": conn, "comps": [[1, s["hist"]]], "kind": "full", "meas": None, "full": True, "dm": True})
    from .. import sweep
    for n in range(2, 7):
        progs = [b["hist"] for b in models.simulate_programs(ck, n, 12 if quick else 400, 4 * n + 2, seed=ck.seed + 31 * n, names1=ONE, names2=TWO)]
        named = sweep.named_states(n)
        for conn in impl.conns(n):      # textbook states: each on at least one connectivity in the quick tier, on all in the thorough tier
            for k, (name, prog) in enumerate(named):
                if not quick or (k + impl.conns(n).index(conn)) % len(impl.conns(n)) == 0 or n <= 3:
                    jobs.append({"N": n, "m": n, "list": None, "conn": conn, "comps": [[1, prog]], "kind": "full", "meas": None, "full": True, "dm": n <= 4, "name": name})
        for conn in impl.conns(n):
            k = {2: 6, 3: 6, 4: 4, 5: 2, 6: 1}[n] if quick else {2: 60, 3: 200, 4: 300, 5: 60, 6: 25}[n]
            for _ in range(k):
                jobs.append({"N": n, "m": n, "list": None, "conn": conn, "comps": [[1, rng.choice(progs)]], "kind": "full", "meas": None, "full": True, "dm": n <= 4})
            for _ in range(1 if quick else 6):   # mixtures
                comps = [[rng.randrange(1, 6), rng.choice(progs)] for _ in range(rng.randrange(2, 4))]
                jobs.append({"N": n, "m": n, "list": None, "conn": conn, "comps": comps, "kind": "full", "meas": None, "full": True, "dm": n <= 4})
    for k, j in enumerate(jobs):      # the documented explicit form of "all qubits": every qubit listed, in another order
        if k % 6 == 5 and j["list"] is None:
            lst = list(range(j["N"]))
            while lst == sorted(lst):
                rng.shuffle(lst)
            j["list"] = lst
            j["full"] = rng.random() < 0.7
    results = tomo.run_scenarios(ck, jobs, files, rng, "C10")
    report(ck, results, "C10", "tomography")
    ck.cov["scenarios"] = len(jobs)
    ck.cov["mixtures"] = sum(1 for j in jobs if len(j["comps"]) > 1)
    ck.sample({k: fgood[3][k] for k in ("N", "counts", "ro", "values")})
    ck.sample({"scenario": {k: jobs[-1][k] for k in ("N", "conn", "comps")}})
    ck.cov["exhaustive"] = False
    ck.cov["exhaustive_parts"] = "n=2: all 60 stabilizer input states; all 744 circuits of all 20 configurations on arbitrary dictionaries" + ("" if quick else "; n=3: all 1080 states")
    ck.cov["rule"] = ("fitter records: (configuration, circuit index, count dictionary); scenarios: (n, conn, weighted list of TLC-generated preparation programs); "
                      "non-trivial = dictionary with more than one outcome / every scenario")
    ck.assumptions += ["linearity of the estimator in the counts (probed with arbitrary dictionaries and integer mixtures, not proved)",
                       "the final floating point sum rho = 2^-n sum <P> P is only cross-checked numerically (1e-12)"]
    return ck.finish()


def replay(path):
    import json
    p = json.load(open(path))["payload"]
    files = {"Exported.tla": core.exported_module(impl.lib(), with_tables=False)}
    ck = core.Check("C10", "quick")
    if "record" in p:
        r = p["record"]
        job = {"N": r["N"], "m": r["m"], "list": None, "conn": p.get("conn", "all"), "index": 0, "kind": "full", "meas": None, "counts": {"".join(k): c for k, c in r["counts"]}, "full": True}
        v, _ = core.validate_traces("TraceCalls", [r], files=files, jvms=1)
        print("re-validated recorded call:", sorted(v[0][0]))
        return 1 if v[0][0] & CLAUSES else 0
    job = dict(p["job"], dm=True)
    res = tomo.run_scenarios(ck, [job], files, ck.rng, "replay")
    job, b, tcl, fcl = res[0]
    print("replayed:", b.get("exc") or sorted(tcl), [sorted(c) for c in fcl if c])
    return 1 if (b.get("exc") or any(c.split(":")[-1] in CLAUSES for c in tcl) or any(c & CLAUSES for c in fcl)) else 0
