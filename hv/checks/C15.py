"""C15 - group predicates agree with the mathematical definitions.

Definitions live in the spec (Calls.tla JudgePred): same group modulo signs = equal sign-free spans; expansion = every element of the span
exactly once; qubit q entangled = the group has no weight-one element supported on q.  Spec -> code: TLC-enumerated groups (all groups of
n = 2, 3 and all pairs of them; all groups of n = 4; class members for n = 5, 6) presented with re-mixed generators and random signs; pairs
drawn as same group / one generator replaced / same class, different group / unrelated.  Code -> spec: one `pred` record per pair.
"""
from .. import core, impl, models, par, workers, sweep
from ..tlc import MachineryError

CLAUSES = {"equivalent", "expand", "entangled", "repeatable", "symmetric"}


def signed(codes, rng):
    return [c % impl.W2 + impl.W2 * rng.randrange(2) for c in codes]


def replace_one(n, codes, rng):
    """another valid stabilizer sharing n-1 generators: conjugate by a random gate sequence until valid and different"""
    for _ in range(50):
        q = rng.randrange(n)
        gate = [rng.choice(["h", "s"]), q, -1]
        out = impl.apply_gates_codes([gate], codes)
        if {c % impl.W2 for c in out} != {c % impl.W2 for c in codes}:
            return out
    return codes


def run(tier):
    ck = core.Check("C15", tier)
    quick = tier == "quick"
    rng = ck.rng
    jobs = []
    groups = {}
    for n in (2, 3):
        sts = models.clifford_states(ck, n, signed=False, dump=True, invariants=("TypeOK",))
        groups[n] = [s["tab"] for s in sts]
        for a in groups[n]:
            for b in groups[n]:
                jobs.append((n, signed(impl.remix(a, rng), rng), signed(impl.remix(b, rng), rng)))
    sts = models.clifford_states(ck, 4, signed=False, dump=True, invariants=("TypeOK",))
    groups[4] = [s["tab"] for s in sts]
    for n in (5, 6):
        groups[n] = [i["codes"] for i in sweep.inputs_classes(ck, n, 2 if quick else 6, 1 if quick else 3, rng)]
    for n in (4, 5, 6):
        gl = groups[n]
        for a in (gl if (n == 4 or not quick) else gl[:: 2]):
            a = signed(a, rng)
            jobs.append((n, a, signed(impl.remix(a, rng), rng)))                       # same group, other generators and signs
            jobs.append((n, a, signed(replace_one(n, a, rng), rng)))                 # same class, neighbouring group
            jobs.append((n, impl.remix(a, rng), signed(gl[rng.randrange(len(gl))], rng)))   # unrelated (or accidentally equal)
    core.dbg("pred jobs", len(jobs))
    recs = par.pmap(workers.predicates, jobs)
    for r in recs:
        if r["exc"]:
            ck.violation(f"pred {r['n']} {r['a']} {r['b']}", f"predicate raises {r['exc']} for n={r['n']} a={r['a']} b={r['b']}", {"job": [r["n"], r["a"], r["b"]]})
    good = [r for r in recs if not r["exc"]]
    files = {"Exported.tla": core.exported_module(impl.lib(), with_tables=False)}
    verdicts, stats = core.validate_traces("TraceCalls", good, files=files, what="C15 pred records")
    ck.add_stats("TraceCalls(pred)", stats)
    eq = 0
    for r, (cl, _) in zip(good, verdicts):
        if "bad-input" in cl:
            raise MachineryError(f"harness built an invalid stabilizer: {r['a']} {r['b']}")
        ck.count((r["n"], tuple(r["a"]), tuple(r["b"])), any(r["ent"]))
        eq += r["equiv"]
        bad = cl & CLAUSES
        if bad:
            ck.violation(f"pred {r['n']} {r['a']} {r['b']}", f"n={r['n']} a={r['a']} b={r['b']}: fails {sorted(bad)} (equiv={r['equiv']}, entangled={r['ent']})", {"job": [r["n"], r["a"], r["b"]], "clauses": sorted(bad)})
        else:
            ck.accepted()
    ck.cov["pairs_reported_equivalent"] = eq
    if eq == 0 or eq == len(good):
        raise MachineryError("vacuity: equivalence predicate never true / never false")
    ck.sample({k: good[40][k] for k in ("n", "a", "b", "equiv", "ent")})
    ck.sample({k: good[-1][k] for k in ("n", "a", "b", "equiv", "ent")})
    ck.cov["exhaustive"] = False
    ck.cov["exhaustive_parts"] = "all ordered pairs of groups for n=2 (225) and n=3 (18225); all 2295 groups of n=4 (x all qubits)"
    ck.cov["rule"] = "pairs of TLC-enumerated groups presented with re-mixed generators and random signs; distinct = (n, generators a, generators b); non-trivial = a has an entangled qubit"
    return ck.finish()


def replay(path):
    import json
    p = json.load(open(path))["payload"]
    r = workers.predicates(tuple(p["job"]))
    if r["exc"]:
        print("replayed:", r["exc"])
        return 1
    v, _ = core.validate_traces("TraceCalls", [r], files={"Exported.tla": core.exported_module(impl.lib(), with_tables=False)}, jvms=1)
    print("replayed verdict:", sorted(v[0][0]))
    return 1 if v[0][0] & CLAUSES else 0
