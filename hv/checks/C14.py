"""C14 - all input formats of a stabilizer describe the same signed group.

The four denotations are DEFINED in the spec (Pauli.tla FromChars / ToChars / ToCharsMirrored / FromMatrices, Graphs.tla GraphGens, and
"group of circuit|0..0>" = the tableau machine).  Spec -> code: all 1024 signed two-qubit Pauli lists (TLC builder model, valid or not),
seeded lists for n = 3..6, all TLC-enumerated valid states of n <= 3, all graphs n <= 5 (n = 6 all in the thorough tier), TLC behaviours as
circuits.  Code -> spec: each construction is a `denote` record judged by Calls.tla: generator-for-generator equality for strings /
matrices / graphs, signed-group equality for circuits, exact string round trip, exact mirror image, object round trip, arguments unchanged.
"""
from .. import core, impl, tlc, models, par, workers, orbits
from ..tlc import MachineryError

CLAUSES = {"shape", "denote-strings", "denote-matrices", "denote-graph", "denote-circuit", "to-list", "mirror", "roundtrip", "args-mutated"}


def mats(codes, n):
    R, S, ph = impl.matrices_of_codes(codes, n)
    return R.tolist(), S.tolist(), ph.tolist()


def run(tier):
    ck = core.Check("C14", tier)
    quick = tier == "quick"
    rng = ck.rng
    jobs = []
    # all signed Pauli lists on two qubits: builder model
    c = tlc.cfg(init="Init", next_="Next", constants={"N": "2"}, invariants=["Dump"])
    res = tlc.run_tlc("PauliLists", c, workers=4)
    tlc.require_ok(res, "PauliLists")
    lists2 = [x["gens"] for x in res.json_lines()]
    if len(lists2) != 1024:
        raise MachineryError(f"PauliLists: {len(lists2)} lists")
    ck.add_tlc("PauliLists(N=2)", res, note="all 32^2 signed Pauli lists (valid or not)")
    pools = [(2, l) for l in lists2]
    for n in (3, 4, 5, 6):
        for _ in range(150 if quick else 3000):
            pools.append((n, [rng.randrange(1 << n) + impl.W * rng.randrange(1 << n) + impl.W2 * rng.randrange(2) for _ in range(n)]))
    for s in models.clifford_states(ck, 3, signed=True, dump=True, invariants=("TypeOK",)):
        pools.append((3, s["tab"]))
    # boundary patterns: a constant-letter operator (I..I, X..X, Y..Y, Z..Z) with either sign in every position of the list, the rest random; and
    # operators that differ from a constant-letter one on a single qubit
    for n in range(2, 7):
        full = (1 << n) - 1
        for (x, z) in ((0, 0), (full, 0), (full, full), (0, full)):
            for sgn in (0, 1):
                for pos in range(n):
                    lst = [rng.randrange(1 << n) + impl.W * rng.randrange(1 << n) + impl.W2 * rng.randrange(2) for _ in range(n)]
                    lst[pos] = x + impl.W * z + impl.W2 * sgn
                    pools.append((n, lst))
                    q = rng.randrange(n)
                    lst2 = list(lst)
                    lst2[pos] = (x ^ (rng.randrange(2) << q)) + impl.W * (z ^ (1 << q)) + impl.W2 * sgn
                    pools.append((n, lst2))
    for i, (n, codes) in enumerate(pools):
        style = ["always", "minus", "none"][i % 3]
        strs = [impl.code_to_str(c if style != "none" else c % impl.W2, n, "minus" if style == "none" else style) for c in codes]
        jobs.append({"n": n, "fmt": "strings", "strs": strs})
        R, S, ph = mats(codes, n)
        jobs.append({"n": n, "fmt": "matrices", "R": R, "S": S, "ph": ph if i % 4 else None, "dtype": ["int8", "int64", "uint8"][i % 3]})
    # graphs
    for n in range(2, 7):
        total = 1 << (n * (n - 1) // 2)
        gs = range(total) if (n <= 5 or not quick) else sorted({rng.randrange(total) for _ in range(3000)} | set(orbits.orbit_reps(6)[0]))
        for g in gs:
            jobs.append({"n": n, "fmt": "graph", "g": g})
    # circuits: behaviours of the tableau machine over the full vocabulary
    ONE, TWO = ("i", "x", "y", "z", "h", "s", "sdg"), ("cx", "cz", "swap")
    st2, tr2 = models.clifford_transitions(ck, 2, ONE, TWO)
    path = {tuple(s["tab"]): s["hist"] for s in st2}
    for t in tr2:
        jobs.append({"n": 2, "fmt": "circuit", "program": path[tuple(t["src"])] + [t["g"]]})
    for n in range(2, 7):
        for d in ([4, 30, 90] if quick else [2, 6, 15, 40, 100, 200]):
            for b in models.simulate_programs(ck, n, 25 if quick else 300, d + 1, seed=ck.seed * 100 + n * 7 + d, names1=ONE, names2=TWO):
                jobs.append({"n": n, "fmt": "circuit", "program": b["hist"]})
    core.dbg("denote jobs", len(jobs))
    recs = par.pmap(workers.denote, jobs)
    for r in recs:
        if r["exc"]:
            ck.violation(f"denote {r['fmt']} {r['strs'] or r['Rin'] or r['g'] or r['program']}", f"Stabilizer({r['fmt']}) raises {r['exc']} for n={r['n']}", {"record": r})
    good = [r for r in recs if not r["exc"]]
    files = {"Exported.tla": core.exported_module(impl.lib(), with_tables=False)}
    verdicts, stats = core.validate_traces("TraceCalls", good, files=files, what="C14 denote records")
    ck.add_stats("TraceCalls(denote)", stats)
    for r, (cl, _) in zip(good, verdicts):
        key = (r["fmt"], r["n"], str(r["strs"] or (r["Rin"], r["Sin"], r["phin"]) or r["g"] if r["fmt"] != "circuit" else r["program"]))
        ck.count(key, not (r["fmt"] == "graph" and r["g"] == 0) and not (r["fmt"] == "circuit" and not r["program"]))
        bad = cl & CLAUSES
        if bad:
            ck.violation(f"denote {key}", f"Stabilizer from {r['fmt']} (n={r['n']}) fails {sorted(bad)}: input {key[2][:150]} -> to_list {[''.join(s) for s in r['tolist']]}", {"record": r, "clauses": sorted(bad)})
        else:
            ck.accepted()
    ck.cov["by_format"] = {f: sum(1 for r in good if r["fmt"] == f) for f in ("strings", "matrices", "graph", "circuit")}
    ck.sample({k: good[5][k] for k in ("fmt", "n", "strs", "R", "S", "ph", "tolist", "tolistq")})
    ck.sample({k: good[-1][k] for k in ("fmt", "n", "program", "tolist")})
    ck.cov["exhaustive"] = False
    ck.cov["exhaustive_parts"] = "all 1024 signed Pauli lists on 2 qubits; all 1080 three-qubit stabilizer states; all graphs n<=5" + ("" if quick else " and n=6") + "; all (state, gate) transitions n=2 as circuits"
    ck.cov["rule"] = "distinct = (format, n, input); non-trivial = not the empty graph / empty circuit; lists for n>=3 and long circuits are seeded samples"
    return ck.finish()


def replay(path):
    import json
    r = json.load(open(path))["payload"]["record"]
    job = {"n": r["n"], "fmt": r["fmt"], "strs": ["".join(s) for s in r["strs"]], "R": r["Rin"], "S": r["Sin"], "ph": r["phin"] if r["hasph"] else None, "g": r["g"], "program": r["program"]}
    r2 = workers.denote(job)
    if r2["exc"]:
        print("replayed:", r2["exc"])
        return 1
    v, _ = core.validate_traces("TraceCalls", [r2], files={"Exported.tla": core.exported_module(impl.lib(), with_tables=False)}, jvms=1)
    print("replayed verdict:", sorted(v[0][0]))
    return 1 if v[0][0] & CLAUSES else 0
