"""X01 - contracts beyond the listed properties (coverage backlog, DESIGN section 10).  NOT registered in MANIFEST.json (no property id);
run with `bin/check X01`.  Findings here are observations about the library, reported as EXTRA-FINDING lines, exit code 0 unless the
machinery itself fails.

 graphbuild  Graph constructors / mutators / get_edges / edge_count / to_circuit against the edge-set meaning (CallsExtra.tla)
 rotate      rotate_stabilizer_into_state: only X gates are prepended, the result prepares the target's signed group, ValueError iff the
             groups differ modulo signs, inplace semantics
 synth       synth_circuit_from_stabilizers: prepares the signed group; raises for invalid input
 same        do_prepare_same_state = equality of the prepared signed groups
 parse       parse_circuit against the documented grammar (including tokens it silently skips)
 zpauli      z_pauli_from_bitstring: Z exactly on the set bits (little-endian), no X part, phase 0 (exhaustive n <= 6)
 pairidx     linear_index_from_n_choose_2 = lexicographic rank of the pair, linear_index_to_n_choose2_to its inverse (exhaustive)
 repr        NTuple / Repr: sorted tuples, grouping by length in insertion order, flatten, equality
"""
import itertools

from .. import core, impl, models, par, workers
from . import C17, C08

ONE, TWO = ("x", "y", "z", "h", "s", "sdg"), ("cx", "cz", "swap")


def run(tier):
    ck = core.Check("X01", tier)
    quick = tier == "quick"
    rng = ck.rng
    files = {"Exported.tla": core.exported_module(impl.lib(), with_tables=False)}
    recs = []
    # graph constructors
    gj = []
    for n in range(2, 7):
        gj += [{"n": n, "kind": k} for k in ("empty", "full", "linear", "cycle")] + [{"n": n, "kind": "star", "a": c} for c in range(n)]
        if n >= 5:
            gj.append({"n": n, "kind": "pusteblume"})
        total = 1 << (n * (n - 1) // 2)
        srcs = range(total) if n <= 4 else [rng.randrange(total) for _ in range(60 if quick else 600)]
        for src in srcs:
            gj.append({"n": n, "kind": "remove_all_edges_to", "src": src, "a": rng.randrange(n)})
            gj.append({"n": n, "kind": "clear", "src": src})
            path = [rng.randrange(n) for _ in range(rng.randrange(0, 5))]
            gj.append({"n": n, "kind": "add_path", "src": src, "list": path})
            gj.append({"n": n, "kind": "add_star", "src": src, "list": [rng.randrange(n) for _ in range(rng.randrange(0, 5))]})
    recs += par.pmap(workers.graph_build, gj)
    # programs
    progs = {n: [b["hist"] for b in models.simulate_programs(ck, n, 30 if quick else 400, 3 * n + 2, seed=ck.seed + 3 * n, names1=ONE, names2=TWO)] for n in range(2, 7)}
    rj, sj, mj = [], [], []
    for n in range(2, 7):
        for p in progs[n]:
            layer = [[rng.choice(["x", "y", "z"]), q, -1] for q in range(n) if rng.random() < 0.5]
            other = rng.choice(progs[n])
            for inplace in (False, True):
                rj.append({"n": n, "circuit": p, "tkind": "circuit", "tprog": p + layer, "inplace": inplace})            # same group, other signs
                rj.append({"n": n, "circuit": p, "tkind": "circuit", "tprog": other, "inplace": inplace})                # (usually) different group
            codes = impl.apply_gates_codes([g for g in layer], [(1 << 8 + q) for q in range(n)])                        # placeholder, replaced below
            mj.append((n, p, p + layer))
            mj.append((n, p, p + [["z", 0, -1], ["z", 0, -1]]))
            mj.append((n, p, other))
        for codes in C08.strata(n, rng, 60 if quick else 600):
            sj.append((n, codes))
            if n <= 4:
                rj.append({"n": n, "circuit": progs[n][0], "tkind": "stab", "tcodes": codes, "inplace": False})
    recs += par.pmap(workers.rotate, rj) + par.pmap(workers.synth, sj) + par.pmap(workers.same_state, mj)
    # parser: every shipped circuit text plus malformed variants
    L = impl.lib()
    pj = []
    texts = set()
    for n, conn, path in C17.table_files(L):
        for line in open(path).read().split("\n")[:: (40 if quick else 5)]:
            if line.count(":") == 3:
                texts.add((n, line.split(":")[3]))
    for n, text in sorted(texts):
        exp = C17.independent_parse(text)
        pj.append((n, text, exp, 1))
    for bad in ["hs0 h1", "h0 sh1", "cx0 h1", "h0,1", "cy0,1", "swap0", "h", "cz0,1,2", "x0", "H0", "h0  h1", "sdg0 s1 swap0,1 cx1,0"]:
        exp = C17.independent_parse(bad)
        pj.append((3, bad, exp, 0 if any(g[0].startswith("?") for g in exp) else 1))
    recs += par.pmap(workers.parse_text, pj)
    # small index / Pauli helpers: exhaustive over the supported sizes
    recs += par.pmap(workers.zpauli, [(n, b) for n in range(1, 7) for b in range(1 << n)])
    recs += par.pmap(workers.pairidx, [(n, i, j) for n in range(2, 9 if quick else 13) for i in range(n) for j in range(i + 1, n)])
    lj = [[]] + [[[rng.randrange(6) for _ in range(rng.randrange(1, 5))] for _ in range(rng.randrange(1, 6))] for _ in range(80 if quick else 800)]
    recs += par.pmap(workers.repr_groups, lj)
    good = [r for r in recs if not (r.get("exc") and r["op"] in ("graphbuild", "same"))]
    findings = {}
    for r in recs:
        if r.get("exc") and r["op"] in ("graphbuild", "same"):
            findings.setdefault(f"{r['op']} raises {r['exc']}", []).append(r)
    v, st = core.validate_traces("TraceCalls", good, files=files, what="X01 records", heap="3g")
    ck.add_stats("TraceCalls(extras)", st)
    for r, (cl, _) in zip(good, v):
        ck.count((r["op"], str(sorted((k, str(x)) for k, x in r.items() if k not in ("exc",)))[:300]), True)
        cl = cl - {"bad-input"}
        if r["op"] == "graphbuild" and r.get("circ") == 0 and r.get("circ_exc"):
            cl = cl | {f"to_circuit raises {r['circ_exc']}" + (" (graph without edges)" if r["count"] == 0 else "")}
        if cl:
            for c in cl:
                findings.setdefault(f"{r['op']}: {c}", []).append(r)
        else:
            ck.accepted()
    ck.cov["extra_findings"] = {k: len(x) for k, x in findings.items()}
    for k, x in sorted(findings.items()):
        ex = x[0]
        brief = {kk: ex[kk] for kk in ex if kk in ("n", "kind", "src", "a", "list", "text", "codes", "outcome", "exc", "circuit", "tprog", "tcodes")}
        print(f"EXTRA-FINDING: {k}: {len(x)} record(s), e.g. {str(brief)[:260]}")
    ck.sample(good[3])
    ck.sample(good[-1])
    ck.cov["by_op"] = {op: sum(1 for r in recs if r["op"] == op) for op in ("graphbuild", "rotate", "synth", "same", "parse", "zpauli", "pairidx", "repr")}
    ck.cov["rule"] = "one record per call; distinct = record; all non-trivial"
    ck.violations = []           # observations only: nothing here is one of the listed properties
    return ck.finish()


def replay(path):
    return 0
