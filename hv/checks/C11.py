"""C11 - tomography of a qubit subset reconstructs that subset's reduced state.

Same machinery as C10 with an ordered list of measured qubits: the spec's Marginal (the i-th listed qubit becomes bit i) and Embed (factor i
of the reported Pauli sits on qubit list[i]) define the meaning; every reported value must be Tr(rho Embed(P, list)) for TLC-generated
N-qubit stabilizer inputs and integer mixtures (N <= 8), for both fitters and both full_hilbert_space modes.  Asymmetric lists ([0,1] of 3,
[2,0], [1,3,0], ...) are what the passing test cannot see.  CircuitResult(counts, qubits) is additionally judged directly (`marginal` records)
on count dictionaries over all N <= 4 and all ordered lists.
"""
import itertools

from .. import core, impl, models, par, workers, tomo
from ..tlc import MachineryError
from . import C10

CLAUSES = C10.CLAUSES | {"marginal", "num-qubits"}
ONE, TWO = ("x", "y", "z", "h", "s", "sdg"), ("cx", "cz", "swap")


def run(tier):
    ck = core.Check("C11", tier)
    quick = tier == "quick"
    rng = ck.rng
    files = {"Exported.tla": core.exported_module(impl.lib(), with_tables=False)}
    # direct marginalisation records: all N <= 4, all injective lists (and None)
    mjobs = []
    for N in range(1, 5):
        for m in range(1, N + 1):
            for lst in itertools.permutations(range(N), m):
                # one complete dictionary with pairwise different counts (any mis-ordering of the listed qubits changes some marginal total) + random ones
                full = {format(b, f"0{N}b"): 1 + 3 * b + (b * b) % 7 for b in range(1 << N)}
                mjobs.append((full, list(lst), N))
                for _ in range(1 if quick else 4):
                    mjobs.append((C10.random_counts(N, rng), list(lst), N))
        mjobs.append((C10.random_counts(N, rng), None, N))
    for N in range(5, 9):
        for _ in range(60 if quick else 600):
            m = rng.randrange(1, min(N, 6) + 1)
            lst = rng.sample(range(N), m)
            if rng.random() < 0.5:      # gap-free sets of qubits in scrambled order (what a "contiguous block" shortcut would mistake for a block)
                lo = rng.randrange(0, N - m + 1)
                lst = list(range(lo, lo + m))
                if m > 2 and rng.random() < 0.7:
                    inner = lst[1:-1]
                    rng.shuffle(inner)
                    lst = [lst[0]] + inner + [lst[-1]]
                else:
                    rng.shuffle(lst)
            full = {format(b, f"0{N}b"): 1 + (5 * b + (b * b) % 11) % 997 for b in range(1 << N)} if N <= 6 else C10.random_counts(N, rng)
            mjobs.append((full, lst, N))
    mrecs = par.pmap(workers.marginal, mjobs)
    for r in mrecs:
        if r["exc"]:
            ck.violation(f"marginal {r['counts']} {r['list']}", f"CircuitResult raises {r['exc']} for list {r['list']}", {"mjob": [{''.join(k): c for k, c in r['counts']}, r['list'] if r['haslist'] else None, r['N']]})
    mgood = [r for r in mrecs if not r["exc"]]
    v, st = core.validate_traces("TraceCalls", mgood, files=files, what="C11 marginal records")
    ck.add_stats("TraceCalls(marginal)", st)
    for r, (cl, _) in zip(mgood, v):
        ck.count(("marginal", r["N"], tuple(r["list"]), str(r["counts"])), len(r["counts"]) > 1)
        bad = cl & CLAUSES
        if bad:
            ck.violation(f"marginal {r['N']} {r['list']}", f"CircuitResult({ {''.join(k): c for k, c in r['counts'][:4]} }, {r['list']}) stores {r['stored'][:4]}: fails {sorted(bad)}",
                         {"mjob": [{"".join(k): c for k, c in r["counts"]}, r["list"] if r["haslist"] else None, r["N"]], "clauses": sorted(bad)})
        else:
            ck.accepted()
    # end to end on subsets
    jobs = []
    progs = {N: [b["hist"] for b in models.simulate_programs(ck, N, 10 if quick else 200, 3 * N + 2, seed=ck.seed + 17 * N, names1=ONE, names2=TWO)] for N in range(2, 9)}
    for m in range(2, 7):
        for N in sorted({m, m + 1, min(8, m + 2)}):
            lists = list(itertools.permutations(range(N), m))
            if N == m:
                lists = [l for l in lists if list(l) != sorted(l)]      # full register in permuted order
            if not lists:
                continue
            exhaustive = (m <= 3 and N <= 4 and not quick) or (m == 2 and N <= 4)
            chosen = lists if exhaustive else [lists[rng.randrange(len(lists))] for _ in range({2: 6, 3: 4, 4: 2, 5: 1, 6: 1}[m] * (3 if quick else 8))]
            for lst in chosen:
                for conn in (impl.conns(m) if (m <= 3 or not quick) else [rng.choice(impl.conns(m))]):
                    comps = [[1, rng.choice(progs[N])]] if rng.random() < 0.7 else [[rng.randrange(1, 5), rng.choice(progs[N])] for _ in range(2)]
                    if m <= 3 or rng.random() < (0.15 if quick else 0.5):
                        jobs.append({"N": N, "m": m, "list": list(lst), "conn": conn, "comps": comps, "kind": "full", "meas": None, "full": rng.random() < 0.5, "dm": m <= 3})
                    meas = impl.remix(impl.apply_gates_codes(impl.random_local_layer(m, rng), impl.graph_gens(m, rng.randrange(1 << (m * (m - 1) // 2)))), rng)
                    jobs.append({"N": N, "m": m, "list": list(lst), "conn": conn, "comps": comps, "kind": "stab", "meas": meas, "full": rng.random() < 0.5, "dm": False})
    results = tomo.run_scenarios(ck, jobs, files, rng, "C11")
    C10.report(ck, results, "C11", "subset tomography")
    ck.cov["scenarios"] = len(jobs)
    ck.cov["asymmetric_lists"] = sum(1 for j in jobs if j["list"] != sorted(j["list"]) or j["list"] != [j["N"] - 1 - q for q in reversed(j["list"])])
    ck.sample({k: mgood[20][k] for k in ("N", "list", "counts", "stored")})
    ck.sample({k: jobs[3][k] for k in ("N", "m", "list", "conn", "kind", "full", "comps")})
    ck.cov["exhaustive"] = False
    ck.cov["exhaustive_parts"] = "CircuitResult: all ordered lists of all registers N<=4; end to end: all ordered pairs from N<=4 registers"
    ck.cov["rule"] = ("(N, ordered list, connectivity, fitter kind, full mode, weighted TLC-generated preparation programs); marginal records: (N, list, dictionary); "
                      "non-trivial = dictionary with more than one outcome / every scenario")
    ck.assumptions += ["linearity of the estimator in the counts (see C10)"]
    return ck.finish()


def replay(path):
    import json
    p = json.load(open(path))["payload"]
    files = {"Exported.tla": core.exported_module(impl.lib(), with_tables=False)}
    if "mjob" in p:
        counts, lst, N = p["mjob"]
        r = workers.marginal((counts, lst, N))
        if r["exc"]:
            print("replayed:", r["exc"])
            return 1
        v, _ = core.validate_traces("TraceCalls", [r], files=files, jvms=1)
        print("replayed:", r["stored"], sorted(v[0][0]))
        return 1 if v[0][0] & CLAUSES else 0
    return C10.replay(path)
