"""C18 - GF(2) linear algebra routines are correct for every binary matrix.

Model level: MC_F2 - TLC checks the executable Gauss-Jordan `Rref` of F2.tla against the declarative meaning (RREF predicate,
row-space equality, rank = dimension, rank-nullity, uniqueness on small shapes) on ALL matrices with at most 4 rows and columns.
Spec -> code: every dumped matrix is replayed into rref / rank / rref_and_basis_change / null_space.  Code -> spec: each call
record is judged by Calls.tla (R = Rref(A), pivots, rank, M*A = R, M*Minv = I, kernel basis: annihilated, independent, of size
n - rank, exact kernel for n <= 10, result of shape (n - rank, n) with an integer dtype even when empty, input unchanged).
Larger shapes up to 36 x 24 (what the layer search uses) by seeded strata: zero, identity-like, full column rank, rank deficient.
"""
import numpy as np

from .. import core, impl, tlc, par, workers
from ..tlc import MachineryError

CLAUSES = {"rref", "pivots", "rank", "rref2", "basis-change", "inverse", "well-typed", "kernel", "kernel-exact", "args-mutated"}


def strata(rng, count, maxm=36, maxn=24):
    nr = np.random.default_rng(rng.randrange(1 << 30))
    out = []
    shapes = [(36, 24), (24, 36), (16, 16), (24, 16), (9, 12), (12, 9), (1, 24), (24, 1), (5, 5), (8, 8), (4, 16), (16, 4), (6, 24), (36, 12)]
    for k in range(count):
        m, n = shapes[k % len(shapes)] if k < 3 * len(shapes) else (int(nr.integers(1, maxm + 1)), int(nr.integers(1, maxn + 1)))
        kind = k % 6
        if kind == 0:
            A = np.zeros((m, n), dtype=np.int64)
        elif kind == 1:   # full column rank (if m >= n): identity block on top of random rows, rows permuted
            A = nr.integers(0, 2, size=(m, n))
            if m >= n:
                A[:n, :] = np.eye(n, dtype=np.int64)
                A = A[nr.permutation(m)]
        elif kind == 2:   # rank deficient: product of thin random factors
            r = int(nr.integers(1, max(2, min(m, n))))
            A = (nr.integers(0, 2, size=(m, r)) @ nr.integers(0, 2, size=(r, n))) % 2
        elif kind == 3:   # sparse
            A = (nr.random((m, n)) < 0.15).astype(np.int64)
        elif kind == 4:   # repeated rows / columns
            A = nr.integers(0, 2, size=(m, n))
            A[m // 2:] = A[: m - m // 2]
        else:
            A = nr.integers(0, 2, size=(m, n))
        out.append(([[int(x) for x in row] for row in A.tolist()], ["int8", "int64", "uint8", "int32", "bool"][k % 5]))
    return out


def run(tier):
    ck = core.Check("C18", tier)
    quick = tier == "quick"
    c = tlc.cfg(init="Init", next_="Next", constants={"MaxDim": "4", "DumpDim": "4" if not quick else "4"},
                invariants=["RrefIsRREF", "RrefSameRowSpace", "RankIsDimension", "RankNullity", "Dump"])
    res = tlc.run_tlc("MC_F2", c, workers=16, heap="6g")
    tlc.require_ok(res, "MC_F2")
    if res.violated_invariant or res.distinct != 74954:
        raise MachineryError(f"MC_F2: {res.violated_invariant} distinct={res.distinct}")
    ck.add_tlc("MC_F2(MaxDim=4)", res, note="executable Rref = declarative RREF of the row space; rank; rank-nullity; all matrices up to 4 x 4")
    dumped = [x for x in res.json_lines() if x.get("k") == "M"]
    jobs = [(x["A"], ["int8", "int64", "bool"][i % 3]) for i, x in enumerate(dumped)]
    nsmall = len(jobs)
    jobs += strata(ck.rng, 400 if quick else 6000)
    out = par.pmap(workers.f2_calls, jobs)
    recs = [r[0] for r in out]
    probes = [r[1] for r in out]          # same entries regrouped to the other shape, evaluated right after (exposes caches keyed on raw bytes)
    for r in recs + probes:
        if r["exc"]:
            ck.violation(f"f2 {r['A']}", f"f2_algebra raises {r['exc']} on a {r['m']}x{r['n']} binary matrix", {"A": r["A"], "dtype": r["dtype"]})
    good = [r for r in recs + [p for p in probes if p["m"] != p["n"]] if not r["exc"]]
    # spec -> code comparison against the dumped oracle values (small matrices)
    ck.cov["reshape_probes"] = sum(1 for p in probes if p["m"] != p["n"])
    for x, r in zip(dumped, recs[:nsmall]):
        if not r["exc"] and (r["R"] != x["R"] or r["piv"] != x["piv"]):
            ck.violation(f"f2 {r['A']}", f"rref({r['A']}) = {r['R']} pivots {r['piv']}, the specification computed {x['R']} pivots {x['piv']}", {"A": r["A"], "dtype": r["dtype"]})
    verdicts, stats = core.validate_traces("TraceCalls", good, files={"Exported.tla": core.exported_module(impl.lib(), with_tables=False)}, what="C18 f2 records")
    ck.add_stats("TraceCalls(f2)", stats)
    for r, (cl, _) in zip(good, verdicts):
        if "bad-input" in cl:
            raise MachineryError(f"harness built a non-binary matrix: {r['A']}")
        ck.count((r["m"], r["n"], str(r["A"]), r["dtype"]), any(any(row) for row in r["A"]))
        bad = cl & CLAUSES
        if bad:
            ck.violation(f"f2 {r['A']}", f"f2_algebra on {r['m']}x{r['n']} matrix {r['A'] if r['m'] * r['n'] <= 36 else '(large)'} fails {sorted(bad)}; null_space shape {r['ns']['shape']} dtype {r['ns']['dtype']}",
                         {"A": r["A"], "dtype": r["dtype"], "clauses": sorted(bad)})
        else:
            ck.accepted()
    ck.cov["full_column_rank_cases"] = sum(1 for r in good if r["rank"] == r["n"])
    ck.cov["largest_shape"] = max((r["m"] * r["n"], [r["m"], r["n"]]) for r in good)[1]
    if ck.cov["full_column_rank_cases"] == 0:
        raise MachineryError("vacuity: no full-column-rank matrix")
    ck.sample({k: recs[700][k] for k in ("m", "n", "A", "R", "piv", "rank", "M", "ns")})
    ck.sample({"m": good[-1]["m"], "n": good[-1]["n"], "rank": good[-1]["rank"], "ns_shape": good[-1]["ns"]["shape"]})
    ck.cov["exhaustive"] = False
    ck.cov["exhaustive_parts"] = "all 74954 binary matrices with 1..4 rows and 1..4 columns"
    ck.cov["rule"] = ("all matrices up to 4x4 from the TLC model (exhaustive) + seeded strata up to 36x24 / 24x36 (zero, full column rank, rank deficient, sparse, "
                      "repeated rows, uniform) in four integer dtypes; distinct = (shape, entries, dtype); non-trivial = non-zero matrix")
    ck.assumptions.append("uniqueness of the reduced row echelon form (model-checked up to 3x3, mathematical fact beyond)")
    return ck.finish()


def replay(path):
    import json
    p = json.load(open(path))["payload"]
    r = workers.f2_calls((p["A"], p.get("dtype", "int8"), False))
    if r["exc"]:
        print("replayed:", r["exc"])
        return 1
    v, _ = core.validate_traces("TraceCalls", [r], files={"Exported.tla": core.exported_module(impl.lib(), with_tables=False)}, jvms=1)
    print("replayed verdict:", sorted(v[0][0]), "null_space:", r["ns"])
    return 1 if v[0][0] & CLAUSES else 0
