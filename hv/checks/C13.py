"""C13 - results are a function of the arguments only: no history or aliasing effects.

Spec: CacheAlias.tla - cache entries, result handles with alias sets, caller-side mutation, cold / warm calls.  The alias relation per API is a
constant EXTRACTED from the running code (object-identity reachability from a returned value into the module-level caches).  TLC (a) decides
invariant Pure under those facts - a counterexample is the shortest violating history and is replayed against the real library; (b) dumps the
complete state graph, every transition of which is replayed (path to its source + the transition) in a forked child with cold caches, the projected
state (loaded files, dirty cached fields, purity of the call) compared after the step; (c) produces long random histories (-simulate), replayed in
full with the projected state compared after every step.  `Mutate` is generic and maximal (lists, dicts, circuits, metadata, arrays, attributes of
returned library objects are walked; attribute rebinding is not performed).  Results are compared with a pristine reference computed in three fresh
interpreters with different hash seeds, which must agree among themselves.
"""
import json
import os
import subprocess

from .. import core, impl, tlc, par, history, workers
from ..tlc import MachineryError


def pristine(apis, cfgs):
    procs = []
    for hs in ("0", "1", "12345"):
        env = dict(os.environ, PYTHONHASHSEED=hs)
        procs.append(subprocess.Popen(["/venv/bin/python", "-m", "hv.history_ref", json.dumps({"apis": apis, "cfgs": cfgs})],
                                      cwd=core.VERIF, env=env, stdout=subprocess.PIPE, stderr=subprocess.PIPE))
    outs = []
    for p in procs:
        o, e = p.communicate()
        if p.returncode != 0:
            raise MachineryError("pristine reference process failed: " + e.decode()[-500:])
        outs.append(json.loads(o))
    return outs


def mc_module(apis, shares):
    def case(fn, default):
        arms = [f'a = "{a}" -> {fn(a)}' for a in apis]
        return "CASE " + " [] ".join(arms) + f" [] OTHER -> {default}"
    text = ["------------------------------ MODULE MC_CacheAlias ------------------------------",
            "(* GENERATED: FileKind / Reads from the documentation of the pipeline, Shares EXTRACTED from the running code *)",
            "EXTENDS CacheAlias",
            "FileKindDef(a) == " + case(lambda a: tlc.tla_str(history.FILE_KIND[a]), '"none"'),
            "ReadsDef(a) == " + case(lambda a: tlc.tla_set(tlc.tla_str(f) for f in history.READS[a]), "{}"),
            "SharesDef(a) == " + case(lambda a: tlc.tla_set(tlc.tla_str(f) for f in shares.get(a, [])), "{}"),
            "============================================================================="]
    return "\n".join(text) + "\n"


def mc_cfg(apis, cfgs, maxheld, maxlen, spec="Spec", invariants=(), view=True):
    return tlc.cfg(spec=spec, constants={"Cfgs": tlc.tla_set(tlc.tla_str(c) for c in cfgs), "Apis": tlc.tla_set(tlc.tla_str(a) for a in apis),
                                         "MaxHeld": str(maxheld), "MaxLen": str(maxlen), "FileKind": "<- FileKindDef", "Reads": "<- ReadsDef", "Shares": "<- SharesDef"},
                   invariants=invariants, view="View" if view else None)


def expected_dirty(d):
    return sorted(f"{x[0][0]}:{x[0][1]}/{x[1]}" for x in d)


def observe(obs, ref, refcache):
    """projection of one observed step -> (loaded set, dirty set, pure flag or None, args_unchanged)"""
    cache = obs["cache"]
    if cache is None:          # cache layout not recognised: no projected state, only the results are judged
        cache = {}
    loaded = sorted(cache.keys())
    dirty = []
    for f, flds in cache.items():
        for fld, val in flds.items():
            if f in refcache and refcache[f].get(fld) != val:
                dirty.append(f"{f}/{fld}")
    pure = None
    if obs["step"][0] == "call":
        key = f"{obs['step'][1]}|{obs['step'][2]}|{obs.get('ver', 0)}"
        if ref[key].get("exc"):      # a fresh interpreter raises for these arguments: the same exception type is the pure answer
            pure = obs.get("exc", "").split(":")[0] == ref[key]["exc"].split(":")[0]
        else:
            pure = (not obs.get("exc")) and obs["result"] == ref[key]["result"]
    return loaded, sorted(dirty), pure, obs.get("args_unchanged", True)


def run(tier):
    ck = core.Check("C13", tier)
    quick = tier == "quick"
    rng = ck.rng
    cfgs = ["2-all", "3-linear", "4-cycle"] if quick else ["2-all", "3-linear", "4-cycle", "5-T"]
    apis = list(history.APIS) + ([] if quick else list(history.LOOKUP_APIS))
    # pristine references from three fresh interpreters
    refs = pristine(apis, cfgs)
    for k in refs[0]:
        a = [r[k].get("ok") for r in refs]
        if any(x is None for x in a):
            raise MachineryError(f"pristine call {k} failed: {[r[k].get('error') for r in refs]}")
        if any(x["exc"] for x in a):
            # some argument values (a float qubit count, an edited stabilizer) are rejected by a fresh interpreter: then the same exception type is the pure answer
            if len({x["exc"].split(":")[0] for x in a}) != 1:
                ck.violation(f"hashseed {k}", f"{k}: fresh interpreters with different PYTHONHASHSEED disagree on raising: {[x['exc'] for x in a]}", {"call": k})
            continue
        if not (a[0]["result"] == a[1]["result"] == a[2]["result"]):
            ck.violation(f"hashseed {k}", f"{k}: fresh interpreters with different PYTHONHASHSEED return different results", {"call": k})
    ref = {k: v["ok"] for k, v in refs[0].items()}
    refcache = {}
    for k, v in ref.items():
        for f, flds in (v["cache"] or {}).items():
            refcache.setdefault(f, {}).update(flds)
    # alias facts extracted from the running code
    al = par.pmap(history.serve, [[("aliases", apis, cfgs)]], procs=1)[0][0]
    if "ok" not in al:
        raise MachineryError("alias extraction failed: " + al.get("error", ""))
    shares = al["ok"]
    ck.cov["alias_facts_extracted"] = {a: s for a, s in shares.items() if s}
    files = {"MC_CacheAlias.tla": mc_module(apis, shares)}
    maxheld, maxlen = (3, 7) if quick else (3, 8)
    # (a) model checking Pure under the extracted facts
    inv = ["PureOrReport"]
    files["MC_CacheAlias.tla"] = files["MC_CacheAlias.tla"].replace("=============================================================================",
        'PureOrReport == IF pure THEN TRUE ELSE (PrintT(ToJson([k |-> "CEX", hist |-> hist])) /\\ FALSE)\n=============================================================================')
    res = tlc.run_tlc("MC_CacheAlias", mc_cfg(apis, cfgs, maxheld, maxlen, invariants=inv), files=files, workers=1, heap="4g")
    histories = []       # (history, expected states per step or None, origin)
    if res.violated_invariant:
        cex = [x for x in res.json_lines() if x.get("k") == "CEX"]
        ck.add_tlc("CacheAlias(Pure, extracted alias facts)", res, note="Pure VIOLATED at model level: " + json.dumps(cex[0]["hist"]) if cex else "violated")
        for c in cex[:1]:
            histories.append((c["hist"], None, "counterexample"))
    else:
        tlc.require_ok(res, "CacheAlias Pure")
        ck.add_tlc("CacheAlias(Pure, extracted alias facts)", res, note="invariant Pure holds")
    # (b) complete state graph with labelled transitions
    res = tlc.run_tlc("MC_CacheAlias", mc_cfg(apis, cfgs, maxheld, maxlen, spec="SpecDump"), files=files, workers=8, heap="4g")
    tlc.require_ok(res, "CacheAlias dump")
    trans = [x for x in res.json_lines() if x.get("k") == "T"]
    ck.add_tlc(f"CacheAlias(state graph, MaxHeld={maxheld}, MaxLen={maxlen})", res, note=f"{len(trans)} labelled transitions")
    cap = 4000 if quick else 25000
    if len(trans) > cap:
        # every (source view, action) is kept at least once: transitions are unique per BFS state, so sample uniformly beyond the cap
        keep = sorted(rng.sample(range(len(trans)), cap))
        trans = [trans[i] for i in keep]
        ck.cov["transitions_sampled"] = True
    for t in trans:
        histories.append((t["hist"], {len(t["hist"]) - 1: t}, "transition"))
    # (c) long random walks
    nwalk, wlen = (150, 30) if quick else (800, 40)
    resw = tlc.run_tlc("MC_CacheAlias", mc_cfg(apis, cfgs, maxheld, wlen, invariants=["EmitWalk"], view=False), files=files, workers=1,
                       simulate=f"num={nwalk}", depth=wlen + 1, seed=ck.seed + 5, heap="2g")
    tlc.require_ok(resw, "CacheAlias simulate")
    walks = [x for x in resw.json_lines() if x.get("k") == "W"]
    ck.add_tlc(f"CacheAlias(-simulate num={nwalk} len={wlen})", states=sum(len(w["hist"]) + 1 for w in walks), transitions=sum(len(w["hist"]) for w in walks))
    for w in walks:
        histories.append((w["hist"], {len(w["hist"]) - 1: w}, "walk"))
    # (d) directed behaviours Call(a,c); [Mutate(1)|Drop]; Call(b,c) for every pair of APIs reading the same object family: the abstract state graph
    #     identifies handles that alias nothing, so its transitions do not name every API; these do
    for c in cfgs:
        for a in apis:
            histories.append(([["call", a, c], ["editarg", 0, ""], ["call", a, c], ["editarg", 0, ""], ["call", a, c]], None, "directed"))
            histories.append(([["call", a, c], ["mutate", 1, ""], ["call", a, c]], None, "directed"))
            histories.append(([["call", a, c], ["call", a, c], ["mutate", 2, ""], ["call", a, c]], None, "directed"))
        for a in apis:
            for b in apis:
                if a != b and (history.FILE_KIND[a] == history.FILE_KIND[b]):
                    histories.append(([["call", a, c], ["mutate", 1, ""], ["call", b, c]], None, "directed"))
    # (e) method order on one object: what a returned object answers must not depend on which of its other read-only methods were called before
    #     (the reference is the same method on a fresh object, i.e. what a fresh interpreter answers)
    from .. import sweep
    mo_inputs = []
    for n in (2, 3, 4, 5, 6):
        mo_inputs += sweep.inputs_classes(ck, n, 1, 1 if quick else 2, rng)
    mo = par.pmap(workers.method_order, [(i["n"], i["codes"]) for i in mo_inputs])
    for r in mo:
        ck.count(("method-order", r["n"], tuple(r["codes"])), True)
        if r["exc"]:
            ck.violation(f"method-order {r['n']} {r['codes']}", f"class / stabilizer object of n={r['n']} generators {r['codes']} raises {r['exc']}", {"mo": [r["n"], r["codes"]]})
            continue
        diffs = [k for k in ("graph", "data", "exp") if r[k + "_fresh"] != r[k + "_after"]] + (["id"] if r["id"] != r["id_after"] else []) + (["arrays"] if r["tab_after"] != [c for c in r["codes"]] else [])
        if diffs:
            ck.violation(f"method-order {r['n']} {r['codes']}", f"n={r['n']} generators {r['codes']}: {diffs} answered differently after other read-only methods of the same object were called "
                         f"(fresh object: graph {r['graph_fresh']} grouping {r['data_fresh']}; after id()/str()/==: graph {r['graph_after']} grouping {r['data_after']})", {"mo": [r["n"], r["codes"]]})
        else:
            ck.accepted()
    ck.cov["method_order_objects"] = len(mo)
    core.dbg("histories", len(histories))
    # ---- replay into the real library (forked children with cold caches) ----------------------------------------------
    nserv = core.NCPU
    chunks = [[("history", h) for (h, _, _) in histories[i::nserv]] for i in range(nserv)]
    outs = par.pmap(history.serve, chunks, procs=nserv, chunksize=1)
    results = [None] * len(histories)
    for i, ch in enumerate(outs):
        for k, o in enumerate(ch):
            results[i + k * nserv] = o
    mismatches = 0
    mutated_between = 0
    for (hist, exp, origin), o in zip(histories, results):
        if "ok" not in o:
            raise MachineryError(f"history replay failed: {o.get('error')}")
        obs = o["ok"]
        calls = [i for i, s in enumerate(hist) if s[0] == "call"]
        nontrivial = any(s[0] == "mutate" for s in hist[: calls[-1]]) if calls else False
        mutated_between += nontrivial
        ck.count(json.dumps(hist), nontrivial)
        bad = None
        for i, ob in enumerate(obs):
            loaded, dirty, pure, unchanged = observe(ob, ref, refcache)
            if pure is False or not unchanged:
                bad = (i, "result differs from a fresh interpreter" if pure is False else "argument modified", ob.get("exc", ""))
                break
            if ob.get("stale"):
                bad = (i, f"a result returned earlier (handle {ob['stale']}) was modified by this call although the caller never touched it", "")
                break
            if exp and i in exp and ob.get("cache") is not None:
                e = exp[i]
                el = sorted(f"{x[0]}:{x[1]}" for x in e["loaded"])
                ed = expected_dirty(e["dirty"])
                if el != loaded or ed != dirty or (pure is not None and bool(e["pure"]) != pure):
                    mismatches += 1
                    ck.cov.setdefault("model_mismatch_samples", [])
                    if len(ck.cov["model_mismatch_samples"]) < 5:
                        ck.cov["model_mismatch_samples"].append({"hist": hist, "model": [el, ed, e["pure"]], "observed": [loaded, dirty, pure]})
        if bad:
            i, why, exc = bad
            short = hist[: i + 1]
            ck.violation("history " + json.dumps(short), f"after history {json.dumps(short)}: {why} {exc}", {"history": short, "origin": origin})
        else:
            ck.accepted()
    ck.cov["model_vs_observed_state_mismatches"] = mismatches
    ck.cov["histories_with_mutation_before_last_call"] = mutated_between
    if mutated_between == 0:
        raise MachineryError("vacuity: no history with a mutation between two calls")
    if mismatches and not ck.violations:
        print(f"NOTE: {mismatches} replayed steps where the projected implementation state differs from the model (see evidence)")
    ck.sample({"history": histories[len(histories) // 2][0]})
    ck.sample({"walk": histories[-1][0]})
    ck.cov["exhaustive"] = not ck.cov.get("transitions_sampled", False)
    ck.cov["exhaustive_scope"] = f"complete abstract state graph for {len(cfgs)} configurations x {len(apis)} APIs, <= {maxheld} held handles, histories of length <= {maxlen}"
    ck.cov["rule"] = ("every labelled transition of the CacheAlias state graph (path to source + transition) and every simulated walk, replayed in forked children with cold caches; "
                      "distinct = history; non-trivial = a caller-side mutation precedes the last call")
    ck.assumptions += ["attribute rebinding on library-defined objects is not counted as a mutation (the property speaks of returned lists / circuits / dictionaries)",
                       "abstraction: handles without aliases are indistinguishable (guarded by long random walks)"]
    return ck.finish()


def replay(path):
    p = json.load(open(path))["payload"]
    if "mo" in p:
        r = workers.method_order(tuple(p["mo"]))
        diffs = [k for k in ("graph", "data", "exp") if r.get(k + "_fresh") != r.get(k + "_after")]
        print("replayed:", r.get("exc"), "differences:", diffs)
        return 1 if (diffs or r.get("exc")) else 0
    if "history" not in p:
        print(p)
        return 1
    apis = sorted({s[1] for s in p["history"] if s[0] == "call"})
    if not apis:
        return 0
    cfgs = sorted({s[2] for s in p["history"] if s[0] == "call"})
    refs = pristine(apis, cfgs)
    ref = {k: v["ok"] for k, v in refs[0].items()}
    out = par.pmap(history.serve, [[("history", p["history"])]], procs=1)[0][0]
    obs = out["ok"]
    rc = 0
    for ob in obs:
        _, _, pure, unchanged = observe(ob, ref, {})
        print(ob["step"], "pure" if pure else ("-" if pure is None else "IMPURE"), "" if unchanged else "ARGS MODIFIED", ob.get("exc", ""))
        if pure is False or not unchanged:
            rc = 1
    return rc
