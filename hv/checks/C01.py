"""C01 - the preparation circuit prepares exactly the requested stabilizer state (signs included).

Spec -> code: the inputs are the reachable states of the tableau machine (all signed states n = 2, 3[,4]; all groups
n = 4[,5]) and members of every local-Clifford class for n = 5, 6 (LCOrbits), in every input format.
Code -> spec: each returned circuit is a behaviour of CliffordMachine from |0..0>; the return event requires the
final signed group to equal the signed group of the request (TraceCircuit.tla, kind prep).
"""
from .. import core, impl, models, sweep

CLAUSES = {"state", "raised", "unknown-gate", "mutated-after-return"}


def build_inputs(ck, tier, rng):
    quick = tier == "quick"
    models.check_gate_laws(ck, 2)
    inputs = []
    s2 = models.clifford_states(ck, 2, signed=True, dump=True)
    for s in s2:
        for k, b in enumerate(sweep.all_bases_n2(s["tab"])):
            inputs.append({"n": 2, "codes": b, "program": s["hist"] if k == 0 else None, "graph": None, "src": "MC_Clifford n=2 all ordered bases"})
    inputs += sweep.inputs_small(ck, 3, True, 2 if quick else 6, rng)
    if quick:
        inputs += sweep.inputs_small(ck, 4, False, 1, rng)
    else:
        inputs += sweep.inputs_small(ck, 4, True, 1, rng)
    inputs += sweep.inputs_classes(ck, 5, 3 if quick else 8, 2 if quick else 4, rng)
    inputs += sweep.inputs_classes(ck, 6, 1 if quick else 6, 1 if quick else 3, rng)
    return inputs


def run(tier):
    ck = core.Check("C01", tier)
    L = impl.lib()
    bad = models.pipeline_model(ck, L, [(2, "all"), (3, "linear")] + ([] if tier == "quick" else [(3, "all")]))
    if bad:     # design-level model with the shipped tables; concrete failing inputs come from the trace validation below
        ck.cov["design_model_violations"] = bad
        print("NOTE: design-level pipeline model violated with the shipped tables:", bad)
    inputs = build_inputs(ck, tier, ck.rng)
    jobs = sweep.expand_jobs(inputs, ["prep"], ck.rng)
    sweeps = sweep.sign_sweep_jobs(inputs, "prep", ck.rng)
    traces, verdicts = sweep.run_jobs(ck, L, jobs, "prep", sweeps=sweeps)
    ck.cov["sign_sweeps_in_one_process"] = len(sweeps)
    sweep.report(ck, "C01", traces, verdicts, CLAUSES)
    neg = sum(1 for t in traces if any(c >= impl.W2 for c in t["target"]))
    ck.cov["traces_with_negative_signs"] = neg
    ck.cov["formats"] = sorted({t["fmt"] for t in traces})
    if neg == 0:
        raise core.MachineryError("vacuity: no trace with a negative sign")
    for t in (traces[7], traces[len(traces) // 2], traces[-1]):
        ck.sample({k: t[k] for k in ("kind", "n", "conn", "fmt", "target", "gates", "cls", "graph", "src")})
    ck.cov["exhaustive"] = False
    ck.cov["exhaustive_parts"] = ("n=2: all 60 signed states x all 6 ordered bases; n=3: all 1080 signed states; "
                                  + ("n=4: all 2295 groups with random signs" if tier == "quick" else "n=4: all 36720 signed states")
                                  + "; n=5,6: members of every class (sampled layers/signs)")
    ck.cov["rule"] = ("targets = TLC-enumerated stabilizer states (MC_Clifford dumps, LCOrbits dumps + seeded local layers), each on every supported "
                      "connectivity, format chosen by seeded rotation; distinct = (n, conn, generator list, format); non-trivial = not (product class with all signs +)")
    ck.assumptions.append("n=5,6 inputs are sampled per class (exhaustive API-level enumeration costs CPU-days); classifier and layer search are covered by C06/C16")
    return ck.finish()


def replay(path):
    return sweep.replay_trace(path, CLAUSES)
