"""C19 - graph and class codecs are bijective and local complementation is faithful.

Model level: GraphMachine.tla - all simple graphs on n = 2..6 labelled vertices as states (ids with the documented bit layout), actions
local complementation / edge toggle / vertex swap; invariants: codec round trips, LC is an involution, complements exactly the edges
among the neighbours, keeps the class key; swap is a relabelling.
Spec -> code: every transition of the state graph is replayed into Graph.decompress / local_complementation / add_edge / remove_edge /
swap / compress (n <= 5 all transitions; n = 6: all LC transitions, toggles and swaps in the thorough tier).
Code -> spec: each replay is a `graphop` record judged by Calls.tla.  Grouping codecs (linear_index) and class-id codecs: `grouping` /
`startidx` records judged against the set of partitions of the documented shape.
"""
from .. import core, impl, tlc, par, workers
from ..tlc import MachineryError

CLAUSES = {"decompress", "compress", "lc", "toggle", "swap", "compress-after", "simple", "involution", "lc-copy",
           "count", "shape", "injective", "roundtrip", "block-order", "start-indices", "reid"}


def graph_machine(ck, n, ops, dump, invariants, init_all=False, print_ops=None):
    c = tlc.cfg(spec="SpecDump" if dump else "Spec", constants={"N": str(n), "Ops": tlc.tla_set(tlc.tla_str(o) for o in ops),
                                                                  "InitAll": "TRUE" if init_all else "FALSE",
                                                                  "PrintOps": tlc.tla_set(tlc.tla_str(o) for o in (print_ops or ops))}, invariants=invariants)
    res = tlc.run_tlc("GraphMachine", c, workers=12, heap="6g")
    tlc.require_ok(res, f"GraphMachine n={n}")
    if res.violated_invariant or res.distinct != 2 ** (n * (n - 1) // 2):
        raise MachineryError(f"GraphMachine n={n}: {res.violated_invariant} distinct={res.distinct}")
    ck.add_tlc(f"GraphMachine(N={n},{'+'.join(ops)})", res, note="all graphs reached; " + ", ".join(invariants))
    return [x for x in res.json_lines() if x.get("k") == "X"] if dump else []


def run(tier):
    ck = core.Check("C19", tier)
    quick = tier == "quick"
    inv = ["Simple", "Codec", "Involution", "Faithful", "LCKeepsClass", "SwapIsRelabel"]
    trans = []
    for n in (2, 3, 4, 5):
        trans += [(n, t) for t in graph_machine(ck, n, ["lc", "toggle", "swap"], True, inv)]
    if quick:
        t6 = graph_machine(ck, 6, ["lc", "toggle"], True, ["Simple", "Codec", "Involution", "Faithful", "LCKeepsClass"], print_ops=["lc"])
    else:
        t6 = graph_machine(ck, 6, ["lc", "toggle", "swap"], True, inv)
    trans += [(6, t) for t in t6]
    jobs = [(n, t["src"], t["op"], t["a"], t["b"]) for n, t in trans]
    core.dbg("graph jobs", len(jobs))
    recs = par.pmap(workers.graph_op, jobs, chunksize=2000)
    good = []
    for (n, t), r in zip(trans, recs):
        if r["exc"]:
            ck.violation(f"graphop {n} {t}", f"Graph operation {t['op']} on graph {t['src']} (n={n}) raises {r['exc']}", {"job": [n, t["src"], t["op"], t["a"], t["b"]]})
            continue
        # spec -> code: the successor the specification computed
        if r["id"] != t["dst"]:
            ck.violation(f"graphop {n} {t['src']} {t['op']} {t['a']} {t['b']}", f"n={n}: {t['op']}({t['a']},{t['b']}) on graph {t['src']} gives graph {r['id']}, the specification computed {t['dst']}",
                         {"job": [n, t["src"], t["op"], t["a"], t["b"]]})
        good.append(r)
    grecs = workers.grouping_records(None)
    for r in grecs:
        if r["exc"]:
            ck.violation(f"{r['op']} {r.get('type', r['n'])}", f"codec {r.get('type', '')} n={r['n']} raises {r['exc']}", {"record": {k: r[k] for k in ("op", "n")}})
    grecs = [r for r in grecs if not r["exc"]]
    files = {"Exported.tla": core.exported_module(impl.lib(), with_tables=False)}
    verdicts, stats = core.validate_traces("TraceCalls", good + grecs, files=files, what="C19 records")
    ck.add_stats("TraceCalls(graphop,grouping,startidx)", stats)
    for r, (cl, _) in zip(good + grecs, verdicts):
        if r["op"] == "graphop":
            key = ("graphop", r["n"], r["src"], r["kind"], r["a"], r["b"])
            ck.count(key, r["src"] != 0)
        else:
            key = (r["op"], r["n"], r.get("type", ""))
            ck.count(key, True)
        bad = cl & CLAUSES
        if bad:
            if r["op"] == "graphop":
                ck.violation(f"graphop {r['n']} {r['src']} {r['kind']} {r['a']} {r['b']}", f"n={r['n']} graph {r['src']} {r['kind']}({r['a']},{r['b']}) fails {sorted(bad)} (result id {r['id']})",
                             {"job": [r["n"], r["src"], r["kind"], r["a"], r["b"]], "clauses": sorted(bad)})
            else:
                ck.violation(f"{r['op']} {r['n']} {r.get('type', '')}", f"{r['op']} {r.get('type', '')} (n={r['n']}) fails {sorted(bad)}", {"record": r, "clauses": sorted(bad)})
        else:
            ck.accepted()
    ck.sample(good[len(good) // 2])
    ck.sample([r for r in grecs if r["op"] == "grouping" and r["count"] > 1][0])
    ck.cov["grouping_types"] = sorted({r["type"] for r in grecs if r["op"] == "grouping"})
    ck.cov["exhaustive"] = not quick
    ck.cov["exhaustive_parts"] = ("all graphs n=2..6 as model states; all LC / toggle / swap transitions n<=5 and all 196608 LC transitions of n=6 replayed"
                                  + ("" if quick else "; all toggle and swap transitions of n=6") + "; all grouping indices of all 13 combinatorics types; all class ids")
    ck.cov["rule"] = "one record per transition of the graph machine; distinct = (n, graph id, operation, vertices); non-trivial = source graph not empty; plus one record per codec type"
    return ck.finish()


def replay(path):
    import json
    p = json.load(open(path))["payload"]
    files = {"Exported.tla": core.exported_module(impl.lib(), with_tables=False)}
    if "job" in p:
        r = workers.graph_op(tuple(p["job"]))
        if r["exc"]:
            print("replayed:", r["exc"])
            return 1
    else:
        rs = [x for x in workers.grouping_records(None) if x["op"] == p["record"]["op"] and x["n"] == p["record"]["n"] and x.get("type") == p["record"].get("type")]
        r = rs[0]
    v, _ = core.validate_traces("TraceCalls", [r], files=files, jvms=1)
    print("replayed verdict:", sorted(v[0][0]))
    return 1 if v[0][0] & CLAUSES else 0
