"""UNTRUSTED hints: LC-orbit representatives computed in Python (union-find over local complementation).
TLC verifies that what is handed over is a system of distinct representatives (LCOrbits.tla)."""
import functools


def _rows(n, g):
    rows = [0] * n
    idx = 0
    for i in range(n - 1):
        for j in range(i + 1, n):
            if g >> idx & 1:
                rows[i] |= 1 << j
                rows[j] |= 1 << i
            idx += 1
    return rows


def _idx(n, i, j):
    return i * n - i * (i + 1) // 2 + (j - i - 1)


def lc(n, g, v):
    rows = _rows(n, g)
    nb = [u for u in range(n) if rows[v] >> u & 1]
    for a in range(len(nb)):
        for b in range(a + 1, len(nb)):
            g ^= 1 << _idx(n, nb[a], nb[b])
    return g


@functools.lru_cache(maxsize=None)
def orbit_reps(n):
    """Returns (sorted list of minimal representatives, dict graph -> representative)."""
    total = 1 << (n * (n - 1) // 2)
    rep = {}
    reps = []
    for g0 in range(total):
        if g0 in rep:
            continue
        reps.append(g0)
        rep[g0] = g0
        stack = [g0]
        while stack:
            g = stack.pop()
            for v in range(n):
                h = lc(n, g, v)
                if h not in rep:
                    rep[h] = g0
                    stack.append(h)
    return reps, rep
