"""Shared plumbing of the checks: exported constants, batch trace validation, evidence, verdict protocol."""
import json
import os
import re
import sys
import time
import random

from . import tlc
from .tlc import MachineryError

VERIF = os.path.dirname(os.path.dirname(os.path.abspath(__file__)))
EVIDENCE_DIR = os.environ.get("VERIF_EVIDENCE_DIR") or os.path.join(VERIF, "evidence")
REPLAY_DIR = os.path.join(EVIDENCE_DIR, "replays")
KNOWN_FILE = os.path.join(VERIF, "known_findings.jsonl")
NCPU = min(16, os.cpu_count() or 4)


def dbg(*a):
    if os.environ.get("VERIF_DEBUG"):
        print("[dbg %.1f]" % (time.time() - _T0), *a, file=sys.stderr, flush=True)


_T0 = time.time()


def seed():
    try:
        return int(os.environ.get("VERIF_SEED", "0"))
    except ValueError:
        return 0


def budget(default):
    """Wall-clock budget (seconds) for open-ended loops of a tier."""
    try:
        return float(os.environ["VERIF_BUDGET_S"])
    except (KeyError, ValueError):
        return default


# ---------------------------------------------------------------------------------------------
# constants exported from the repository (through the library's own loaders)
# ---------------------------------------------------------------------------------------------
_export_cache = {}


def exported_module(L, with_tables=True):
    """Text of spec module Exported: representative graph per class id and the table metadata."""
    from .impl import SUPPORTED, NUM_CLASSES
    key = ("exp", with_tables)
    if key in _export_cache:
        return _export_cache[key]
    cls = {2: L.lc_classes.LCClass2, 3: L.lc_classes.LCClass3, 4: L.lc_classes.LCClass4,
           5: L.lc_classes.LCClass5, 6: L.lc_classes.LCClass6}
    out = ["------------------------------ MODULE Exported ------------------------------",
           "(* GENERATED at check time from the repository's current working tree:         *)",
           "(* RepGraphs(n)[id+1] = LCClass<n>(id).get_graph().compress()                   *)",
           "(* TableOf(n, conn)[id+1] = <<graph_id, cost, depth>> reported by              *)",
           "(*   circuit_lookup.stabilizer_circuit_lookup(n, conn, id)                     *)",
           "(* EntryIndexByKey(n, conn)[key] = index (1-based) of the table line whose graph has that class key *)",
           "EXTENDS Classes"]
    for n in range(2, 7):
        reps = []
        for i in range(NUM_CLASSES[n]):
            try:
                reps.append(int(cls[n](i).get_graph().compress()))
            except Exception:
                reps.append(-1)
        out.append(f"Rep{n} == <<" + ", ".join(map(str, reps)) + ">>")
    out.append("RepGraphs(n) == CASE n = 2 -> Rep2 [] n = 3 -> Rep3 [] n = 4 -> Rep4 [] n = 5 -> Rep5 [] n = 6 -> Rep6")
    arms = []
    karms = []
    for (n, c) in SUPPORTED:
        name = f"Tab{n}{c}"
        ents = []
        if with_tables:
            for i in range(NUM_CLASSES[n]):
                try:
                    e = L.circuit_lookup.stabilizer_circuit_lookup(n, c, i)
                    ents.append(f"<<{int(e.graph_id)}, {int(e.cost)}, {int(e.depth)}>>")
                except Exception:
                    ents.append("<<-1, -1, -1>>")
        out.append(f"{name} == <<" + ", ".join(ents) + ">>")
        arms.append(f'n = {n} /\\ conn = "{c}" -> {name}')
        out.append(f"KP{n}{c} == {{<<KeyOfGraph({n}, {name}[i][1]), i>> : i \\in 1..Len({name})}}")
        out.append(f"KI{n}{c} == [k \\in {{p[1] : p \\in KP{n}{c}}} |-> (CHOOSE p \\in KP{n}{c} : p[1] = k)[2]]")
        karms.append(f'n = {n} /\\ conn = "{c}" -> KI{n}{c}')
    out.append("TableOf(n, conn) == CASE " + "\n   [] ".join(arms) + "\n   [] OTHER -> <<>>")
    out.append("EntryIndexByKey(n, conn) == CASE " + "\n   [] ".join(karms) + "\n   [] OTHER -> [k \\in {} |-> 0]")
    # gate lists of the table circuits for the small registers (used by the design-level Pipeline model)
    garms = []
    for (n, c) in SUPPORTED:
        if n > 3:
            continue
        ents = []
        if with_tables:
            from . import impl as _impl
            for i in range(NUM_CLASSES[n]):
                try:
                    g = _impl.gates_of(L.circuit_lookup.stabilizer_circuit_lookup(n, c, i).parse_circuit())
                    ents.append(tlc.to_tla(g))
                except Exception:
                    ents.append("<<>>")
        out.append(f"Gat{n}{c} == <<" + ", ".join(ents) + ">>")
        garms.append(f'n = {n} /\\ conn = "{c}" -> Gat{n}{c}')
    out.append("TableGatesOf(n, conn) == CASE " + "\n   [] ".join(garms) + "\n   [] OTHER -> <<>>")
    out.append("=============================================================================")
    text = "\n".join(out) + "\n"
    _export_cache[key] = text
    return text


# ---------------------------------------------------------------------------------------------
# batch trace validation
# ---------------------------------------------------------------------------------------------
def parse_verdicts(res, n_expected, what):
    verdicts = {}
    for l in res.lines:
        if l.startswith('"{\\"v\\":'):
            try:
                d = json.loads(json.loads(l))
            except Exception as e:
                raise MachineryError(f"{what}: unparsable verdict line {l[:200]!r}: {e}")
            x = d.get("x") or []
            verdicts[int(d["v"])] = (set(d["c"]), d["o"] if d.get("o") else (", ".join(str(i) for i in x) if x else None))
    if len(verdicts) != n_expected:
        errs = [i for i, l in enumerate(res.lines) if l.startswith("Error:")]
        tail = "\n".join(res.lines[errs[0]:errs[0] + 12] if errs else res.lines[-30:])
        raise MachineryError(f"{what}: {len(verdicts)} verdicts for {n_expected} traces (rc={res.rc})\n{tail}")
    return verdicts


def validate_traces(module, traces, *, files=None, jvms=None, what="traces", timeout=3600, heap="2g",
                    constants=None):
    """Validate `traces` (list of dicts) with spec/<module>.tla in parallel single-worker TLC runs.
    Returns (list of (set of failed clauses, extra text) aligned with traces, stats dict)."""
    if not traces:
        return [], {"states": 0, "transitions": 0, "tlc_wall": 0.0, "jvms": 0}
    jvms = jvms or min(NCPU, max(1, len(traces) // 40))
    chunks = [traces[i::jvms] for i in range(jvms)]
    index = [list(range(i, len(traces), jvms)) for i in range(jvms)]
    jobs = []
    tmpfiles = []
    import tempfile
    for ch in chunks:
        fd, path = tempfile.mkstemp(prefix="hv-trace-", suffix=".json")
        with os.fdopen(fd, "w") as fh:
            json.dump(ch, fh, separators=(",", ":"))
        tmpfiles.append(path)
        c = tlc.cfg(spec="Spec", constants=constants)
        jobs.append(((module, c), dict(files=files, workers=1, env={"TRACE_FILE": path}, timeout=timeout, heap=heap)))
    t0 = time.time()
    try:
        results = tlc.run_many(jobs, parallel=NCPU)
    finally:
        for p in tmpfiles:
            try:
                os.unlink(p)
            except OSError:
                pass
    verdicts = [None] * len(traces)
    states = trans = 0
    for ch, idx, res in zip(chunks, index, results):
        v = parse_verdicts(res, len(ch), what)
        for k, gi in enumerate(idx):
            verdicts[gi] = v[k + 1]
        states += res.distinct
        trans += res.generated
    return verdicts, {"states": states, "transitions": trans, "tlc_wall": round(time.time() - t0, 2), "jvms": jvms}


# ---------------------------------------------------------------------------------------------
# known findings, violations, evidence
# ---------------------------------------------------------------------------------------------
def load_known(prop):
    known, fixed = [], []
    if os.path.exists(KNOWN_FILE):
        for line in open(KNOWN_FILE):
            line = line.strip()
            if not line or line.startswith("#"):
                continue
            e = json.loads(line)
            if e.get("property") != prop:
                continue
            (known if e.get("status") == "known" else fixed).append(e)
    return known, fixed


class Check:
    """Collects results of one check run and writes evidence / verdict lines."""

    def __init__(self, prop, tier, level="model_checking"):
        self.prop = prop
        self.tier = tier
        self.level = level
        self.t0 = time.time()
        self.seed = seed()
        self.rng = random.Random(self.seed * 7919 + sum(map(ord, prop)))
        self.violations = []          # (description, replay payload)
        self.known_hits = []
        self.cov = {"states": 0, "transitions": 0, "traces_validated_against_impl": 0, "evaluations": 0,
                    "distinct_nontrivial": 0, "samples": [], "exhaustive": False, "rule": "", "tlc_runs": []}
        self.assumptions = []
        self.known, self.fixed = load_known(prop)
        self._distinct = set()

    # -- accounting -------------------------------------------------------------------------
    def add_tlc(self, name, res=None, states=None, transitions=None, note=None):
        s = res.distinct if res is not None else states
        t = res.generated if res is not None else transitions
        self.cov["states"] += int(s or 0)
        self.cov["transitions"] += int(t or 0)
        ent = {"model": name, "states": int(s or 0), "transitions": int(t or 0)}
        if res is not None:
            ent["wall_s"] = round(res.wall, 2)
            if res.diameter is not None:
                ent["diameter"] = res.diameter
        if note:
            ent["note"] = note
        self.cov["tlc_runs"].append(ent)

    def add_stats(self, name, stats):
        self.add_tlc(name, states=stats["states"], transitions=stats["transitions"],
                     note=f"{stats.get('jvms', 0)} single-worker JVMs, {stats.get('tlc_wall', 0)} s")

    def count(self, key, nontrivial=True):
        """Count one evaluation; `key` identifies the distinct input (hashable/serialisable)."""
        self.cov["evaluations"] += 1
        if nontrivial:
            k = key if isinstance(key, (str, int, tuple)) else json.dumps(key, sort_keys=True)
            self._distinct.add(hash(k))

    def sample(self, obj, limit=4):
        if len(self.cov["samples"]) < limit:
            self.cov["samples"].append(obj)

    def accepted(self, k=1):
        self.cov["traces_validated_against_impl"] += k

    # -- findings ---------------------------------------------------------------------------
    def violation(self, key, desc, payload):
        """key: stable identifier of the failing input (matched against known_findings.jsonl)."""
        for e in self.known:
            if e.get("key") == key and all(payload.get(k) == v for k, v in e.get("match", {}).items()):
                self.known_hits.append((key, e.get("what", desc)))
                return
        self.violations.append((key, desc, payload))

    def machinery(self, msg):
        raise MachineryError(msg)

    # -- output -----------------------------------------------------------------------------
    def finish(self):
        self.cov["distinct_nontrivial"] = len(self._distinct)
        os.makedirs(EVIDENCE_DIR, exist_ok=True)
        ev = {"property_id": self.prop, "tier": self.tier, "seed": self.seed, "level": self.level,
              "coverage": self.cov, "assumptions": self.assumptions, "wall_s": round(time.time() - self.t0, 2),
              "violations": len(self.violations), "known_findings_reobserved": len(self.known_hits),
              "repo": os.environ.get("VERIF_REPO", "/repo")}
        if not self.cov["samples"]:
            self.cov["samples"].append("no case explored")
        with open(os.path.join(EVIDENCE_DIR, f"{self.prop}.json"), "w") as fh:
            json.dump(ev, fh, indent=1, default=str)
        seen = set()
        for key, what in self.known_hits:
            if key in seen:
                continue
            seen.add(key)
            print(f"KNOWN-FINDING: property={self.prop} {what}")
        if self.violations:
            d = os.path.join(REPLAY_DIR, self.prop)
            os.makedirs(d, exist_ok=True)
            shown = 0
            for i, (key, desc, payload) in enumerate(self.violations[:(100000 if os.environ.get('VERIF_ALL_REPLAYS') else 50)]):
                path = os.path.join(d, f"{self.tier}-{i}.json")
                with open(path, "w") as fh:
                    json.dump({"property": self.prop, "key": key, "what": desc, "payload": payload}, fh, indent=1, default=str)
                print(f"VIOLATION property={self.prop} replay={path}")
                if shown < 10:
                    print(f"  {desc}")
                    shown += 1
            print(f"{self.prop}: {len(self.violations)} violation(s)")
            return 1
        print(f"{self.prop} {self.tier}: held on everything explored "
              f"({self.cov['evaluations']} evaluations, {self.cov['traces_validated_against_impl']} traces accepted, "
              f"{self.cov['states']} TLC states, {ev['wall_s']} s)")
        return 0
