"""C13 engine: executes call histories against the real library in forked children with cold caches, with a generic
maximal caller-side mutation of returned objects, canonical serialisation, projection of the cache state, and the
extraction of alias facts (object-identity reachability from results into the caches)."""
import json
import os
import sys
import traceback

from . import impl

APIS = ["prep", "prep_neg", "readout", "compress", "mub_circuits", "mubs", "mub_info", "fst", "smc", "conn_graph", "classify", "class_graph",
        "expand", "to_list", "decompress", "fit_full", "fit_sub", "fit_dm", "mubs_float", "prep_strenum", "rotate", "lookup_parse"]
FILE_KIND = {"prep": "stab", "prep_neg": "stab", "readout": "stab", "compress": "stab", "smc": "stab",
             "expand": "none", "to_list": "none", "decompress": "none", "fit_full": "mub", "fit_sub": "mub", "fit_dm": "mub", "mubs_float": "none", "prep_strenum": "none",
             "mub_circuits": "mub", "mubs": "mub", "mub_info": "mub", "fst": "mub",
             "conn_graph": "none", "classify": "none", "class_graph": "none", "rotate": "none", "lookup_parse": "stab"}
READS = {"prep": ["infos"], "prep_neg": ["infos"], "readout": ["infos"], "compress": ["infos"], "smc": ["infos"],
         "expand": [], "to_list": [], "decompress": [], "fit_full": ["circuits"], "fit_sub": ["circuits"], "fit_dm": ["circuits"], "mubs_float": [], "prep_strenum": [],
         "mub_circuits": ["circuits"], "fst": ["circuits"], "mubs": ["mubs"], "mub_info": ["header"],
         "conn_graph": [], "classify": [], "class_graph": [], "rotate": [], "lookup_parse": ["infos"]}
LOOKUP_APIS = ["lookup_stab", "lookup_mub"]      # circuit_lookup plumbing, thorough tier only
FILE_KIND.update({"lookup_stab": "stab", "lookup_mub": "mub"})
READS.update({"lookup_stab": ["infos"], "lookup_mub": ["circuits", "mubs", "header"]})

FIXED = {  # fixed arguments per register size: a stabilizer (strings) and a Clifford program
    2: (["XZ", "-ZX"], [["h", 0, -1], ["cx", 0, 1], ["s", 1, -1]]),
    3: (["XZZ", "-ZXI", "ZIX"], [["h", 0, -1], ["cx", 0, 1], ["cz", 1, 2], ["y", 2, -1], ["h", 2, -1]]),
    4: (["XZII", "ZXZI", "-IZXZ", "IIZX"], [["h", 0, -1], ["cx", 0, 1], ["h", 2, -1], ["cz", 2, 3], ["swap", 1, 2], ["sdg", 0, -1]]),
    5: (["XZIIZ", "ZXZII", "-IZXZI", "IIZXZ", "ZIIZX"], [["h", 0, -1], ["cx", 0, 1], ["cx", 1, 2], ["h", 3, -1], ["cz", 3, 4], ["s", 4, -1]]),
    6: (["XZIIII", "ZXZIII", "-IZXZII", "IIZXZI", "IIIZXZ", "-IIIIZX"], [["h", 0, -1], ["cx", 0, 1], ["cx", 1, 2], ["h", 3, -1], ["cz", 3, 4], ["cz", 4, 5], ["h", 5, -1]]),
}


def parse_cfg(c):
    n, conn = c.split("-", 1)
    return int(n), conn


# ---------------------------------------------------------------------------------------------
# canonical serialisation
# ---------------------------------------------------------------------------------------------
def ser(o, L, depth=0):
    import numpy as np
    from qiskit import QuantumCircuit
    if depth > 8:
        return "<deep>"
    if o is None or isinstance(o, (bool, int, str)):
        return o
    if isinstance(o, float):
        return repr(o)
    if isinstance(o, (np.integer,)):
        return int(o)
    if isinstance(o, (np.floating,)):
        return repr(float(o))
    if isinstance(o, np.ndarray):
        if o.dtype.kind == "c":
            return ["nd", str(o.dtype), [[repr(complex(x)) for x in row] for row in np.atleast_2d(o).round(12).tolist()]]
        return ["nd", str(o.dtype), o.tolist()]
    if type(o).__name__ in ("FullStateTomographyFitter", "StabilizerMeasurementFitter"):
        return ["fitter", type(o).__name__]
    if isinstance(o, QuantumCircuit):
        md = o.metadata
        return ["qc", o.num_qubits, o.num_clbits, impl.gates_of(o), ser(md, L, depth + 1) if md else None]
    if isinstance(o, (list, tuple)):
        return [type(o).__name__] + [ser(x, L, depth + 1) for x in o]
    if isinstance(o, dict):
        return ["dict"] + sorted([[str(k), ser(v, L, depth + 1)] for k, v in o.items()], key=lambda kv: kv[0])
    try:
        if isinstance(o, L.graph.Graph):
            return ["graph", o.num_vertices, impl.graph_rows(o)]
        if isinstance(o, L.stabilizer.Stabilizer):
            return ["stab", o.num_qubits, o.R.tolist(), o.S.tolist(), o.phases.tolist()]
        if isinstance(o, L.lc_classes.LCClassBase):
            return ["lcclass", o.num_qubits(), int(o.id())]
    except Exception:
        pass
    # any other library-defined object (ReadoutInfo, StabilizerCircuitInfo, MUBInfo, whatever a later version introduces): its class name and the values of
    # its instance attributes.  The serialisation is only ever compared with the one a fresh interpreter of the SAME tree produces, so no layout is assumed.
    if type(o).__module__.split(".")[0] in ("htstabilizer",) or hasattr(o, "__dict__") or getattr(type(o), "__slots__", None):
        fields = {}
        d = getattr(o, "__dict__", None)
        if isinstance(d, dict):
            fields.update(d)
        for sl in getattr(type(o), "__slots__", ()) or ():
            if isinstance(sl, str) and hasattr(o, sl):
                fields[sl] = getattr(o, sl)
        if type(o).__module__.split(".")[0] == "htstabilizer":
            return ["obj", type(o).__name__] + sorted([[str(k), ser(v, L, depth + 1)] for k, v in fields.items() if not str(k).startswith("__")], key=lambda kv: kv[0])
    return ["obj", type(o).__name__]


# ---------------------------------------------------------------------------------------------
# generic maximal mutation of everything reachable from a returned object
# ---------------------------------------------------------------------------------------------
def mutate(o, L, seen=None, depth=0):
    import numpy as np
    from qiskit import QuantumCircuit
    seen = seen if seen is not None else set()
    if id(o) in seen or depth > 8 or o is None or isinstance(o, (bool, int, float, str, bytes)):
        return
    seen.add(id(o))
    if isinstance(o, np.ndarray):
        if o.flags.writeable and o.size:
            o.flat[:] = 1 if o.dtype.kind in "iub" else 0
        return
    if isinstance(o, QuantumCircuit):
        md = o.metadata
        if isinstance(md, dict):
            for v in list(md.values()):
                mutate(v, L, seen, depth + 1)
            md["hv-junk"] = 1
        if o.num_qubits:
            o.x(0)
            o.h(o.num_qubits - 1)
        return
    if isinstance(o, list):
        for x in list(o):
            mutate(x, L, seen, depth + 1)
        if o:
            o[0] = "GARBAGE"
        o.append("GARBAGE")
        o.reverse()
        return
    if isinstance(o, dict):
        for v in list(o.values()):
            mutate(v, L, seen, depth + 1)
        for k in list(o.keys()):
            o[k] = "GARBAGE"
        o["hv-junk"] = 1
        return
    if isinstance(o, (tuple, set, frozenset)):
        for x in list(o):
            mutate(x, L, seen, depth + 1)
        return
    # library-defined objects: walk into their attributes (rebinding attributes is NOT a mutation we perform)
    d = getattr(o, "__dict__", None)
    if isinstance(d, dict):
        for v in list(d.values()):
            mutate(v, L, seen, depth + 1)
    for s in getattr(type(o), "__slots__", ()) or ():
        if isinstance(s, str) and hasattr(o, s):
            mutate(getattr(o, s), L, seen, depth + 1)


def mutable_ids(o, L, acc=None, depth=0):
    """ids of all mutable containers reachable from o (lists, dicts, arrays, circuits)"""
    import numpy as np
    from qiskit import QuantumCircuit
    acc = acc if acc is not None else {}
    if o is None or isinstance(o, (bool, int, float, str, bytes)) or depth > 8:
        return acc
    if id(o) in acc:
        return acc
    if isinstance(o, (np.ndarray, QuantumCircuit)):
        acc[id(o)] = o
        if isinstance(o, QuantumCircuit) and isinstance(o.metadata, dict):
            mutable_ids(o.metadata, L, acc, depth + 1)
        return acc
    if isinstance(o, (list, dict, set, bytearray)):
        acc[id(o)] = o
        for x in (o.values() if isinstance(o, dict) else o):
            mutable_ids(x, L, acc, depth + 1)
        return acc
    if isinstance(o, (tuple, frozenset)):
        for x in o:
            mutable_ids(x, L, acc, depth + 1)
        return acc
    acc[id(o)] = o   # keeps the object alive so ids stay unique; objects themselves are not counted as containers below
    d = getattr(o, "__dict__", None)
    if isinstance(d, dict):
        for v in d.values():
            mutable_ids(v, L, acc, depth + 1)
    for s in getattr(type(o), "__slots__", ()) or ():
        if isinstance(s, str) and hasattr(o, s):
            mutable_ids(getattr(o, s), L, acc, depth + 1)
    return acc


def _is_container(o):
    import numpy as np
    from qiskit import QuantumCircuit
    return isinstance(o, (list, dict, set, bytearray, np.ndarray, QuantumCircuit))


# ---------------------------------------------------------------------------------------------
# the API actions
# ---------------------------------------------------------------------------------------------
def make_args(api, cfg, L, held_args=None):
    """Arguments of one call. The caller keeps ONE stabilizer object and ONE circuit object per register size for the whole history
    (held_args) and passes them again and again, as a real caller would; everything else is built afresh."""
    n, conn = parse_cfg(cfg)
    strs, prog = FIXED[n]
    St = L.stabilizer.Stabilizer
    held_args = held_args if held_args is not None else {}
    if ("st", n) not in held_args:
        held_args[("st", n)] = St(list(strs))
        held_args[("qc", n)] = impl.circuit_from_gates(n, prog)
        if held_args.get("ver", 0) == 1:
            edit_args_inplace(held_args, n)
    st, qc = held_args[("st", n)], held_args[("qc", n)]
    if api in ("prep", "readout"):
        return [st, conn]
    if api == "prep_neg":      # same generators, all signs flipped: a different state with the same sign-free group
        return [St([("" if s.startswith("-") else "-") + s.lstrip("+-") for s in strs]), conn]
    if api == "compress":
        return [qc, conn]
    if api in ("expand", "to_list"):
        return [st]
    if api == "mubs_float":          # arguments that are EQUAL to ordinary ones (4.0 == 4) but not identical: whatever a fresh interpreter answers is the answer
        return [float(n), conn]
    if api == "prep_strenum":
        import enum
        E = enum.Enum("Connectivity", {"C": conn}, type=str)
        return [st, E.C]
    if api in ("fit_full", "fit_sub", "fit_dm"):
        # ONE fitter object per configuration, kept by the caller for the whole history: subset tomography of the last n qubits (in reversed order) of an
        # (n+1)-qubit register, evaluated on a fixed count dictionary per circuit
        key = ("fitter", cfg)
        if key not in held_args:
            from .workers import FakeResult
            prep = impl.circuit_from_gates(n + 1, prog)
            lst = list(range(n, 0, -1))
            circs = L.tomography.full_state_tomography_circuits(prep, conn, lst)
            counts = [{format((3 * i + 1) % (1 << (n + 1)), f"0{n + 1}b"): 5, format((5 * i + 2) % (1 << (n + 1)), f"0{n + 1}b"): 3} for i in range(len(circs))]
            held_args[key] = L.tomography.FullStateTomographyFitter(FakeResult(counts), circs)
        return [held_args[key]]
    if api == "decompress":
        return [n, 1]
    if api in ("mub_circuits", "mubs", "mub_info", "conn_graph", "lookup_mub"):
        return [n, conn]
    if api == "fst":
        return [qc, conn]
    if api == "smc":
        return [qc, st, conn]
    if api == "classify":
        return [st]
    if api == "class_graph":
        return [n, 1]
    if api in ("lookup_stab", "lookup_parse"):
        return [n, conn, 1]
    if api == "rotate":
        # the public helper with its default inplace=False: the caller's circuit and a target with the same group but other signs (an X layer in front)
        return [qc, St(impl.circuit_from_gates(n, [["x", 0, -1], ["x", n - 1, -1]] + [g for g in impl.gates_of(qc)]))]
    raise ValueError(api)


def edit_args_inplace(held_args, n):
    """The caller edits its own objects in place: a Hadamard on qubit 0 of the stabilizer (rows of R and S exchanged: still a valid stabilizer) and an
    extra h gate at the end of its circuit.  Applied twice it restores the original value."""
    st, qc = held_args[("st", n)], held_args[("qc", n)]
    r0 = st.R[0, :].copy()
    st.R[0, :] = st.S[0, :]
    st.S[0, :] = r0
    if len(qc.data) and qc.data[-1].operation.name == "sx":
        qc.data.pop()
    else:
        qc.sx(0)


def call_api(api, args, L):
    if api in ("prep", "prep_neg"):
        return L.stabilizer_circuits.get_preparation_circuit(*args)
    if api == "mubs_float":
        return L.mub_circuits.get_mubs(*args)
    if api == "prep_strenum":
        return L.stabilizer_circuits.get_preparation_circuit(*args)
    if api == "expand":
        return args[0].expand()
    if api == "to_list":
        return args[0].to_list()
    if api == "decompress":
        return L.graph.Graph.decompress(*args)
    if api == "fit_full":
        return args[0].expectation_values(full_hilbert_space=True)
    if api == "fit_sub":
        return args[0].expectation_values(full_hilbert_space=False)
    if api == "fit_dm":
        return args[0].density_matrix(full_hilbert_space=False)
    if api == "readout":
        return L.stabilizer_circuits.get_readout_circuit(*args)
    if api == "compress":
        return L.stabilizer_circuits.compress_preparation_circuit(*args)
    if api == "mub_circuits":
        return L.mub_circuits.get_mub_circuits(*args)
    if api == "mubs":
        return L.mub_circuits.get_mubs(*args)
    if api == "mub_info":
        return L.mub_circuits.get_mub_info(*args)
    if api == "fst":
        return L.tomography.full_state_tomography_circuits(*args)
    if api == "smc":
        return L.tomography.stabilizer_measurement_circuit(*args)
    if api == "conn_graph":
        return L.connectivity_support.get_connectivity_graph(*args)
    if api == "classify":
        return L.lc_classes.determine_lc_class(*args)
    if api == "class_graph":
        return getattr(L.lc_classes, f"LCClass{args[0]}")(args[1]).get_graph()
    if api == "lookup_stab":
        return L.circuit_lookup.stabilizer_circuit_lookup(*args)
    if api == "lookup_mub":
        return L.circuit_lookup.mub_circuit_lookup(*args)
    if api == "lookup_parse":
        return L.circuit_lookup.stabilizer_circuit_lookup(*args).parse_circuit()
    if api == "rotate":
        return L.rotate_stabilizer_into_state.rotate_stabilizer_into_state(*args)
    raise ValueError(api)


def _cfg_of(key, prefix):
    """configuration name of a cache key: 'stabilizer3-linear.txt' -> '3-linear'; (3, 'linear') -> '3-linear'; anything else -> str(key)"""
    if isinstance(key, str):
        if key.startswith(prefix) and key.endswith(".txt"):
            return key[len(prefix):-len(".txt")]
        return key
    if isinstance(key, (tuple, list)):
        return "-".join(str(x) for x in key)
    return str(key)


def cache_fields(L):
    """{(kind, cfg): {field: object}} for everything currently cached in circuit_lookup's module-level caches.  The caches are implementation
    details: an unrecognised layout gives coarser fields (or None: the projected-state comparison is then skipped), never an error."""
    out = {}
    cl = L.circuit_lookup
    try:
        for key, infos in dict(getattr(cl, "stabilizer_file_cache", {})).items():
            out[("stab", _cfg_of(key, "stabilizer"))] = {"infos": infos}
        for key, mi in dict(getattr(cl, "mub_file_cache", {})).items():
            flds = {name: getattr(mi, name) for name in ("circuits", "mubs") if hasattr(mi, name)}
            if flds:
                flds["header"] = [getattr(mi, a, None) for a in ("total_cost", "max_cost", "max_depth", "num_qubits")]
            else:
                flds = {"content": mi}
            out[("mub", _cfg_of(key, "mub"))] = flds
    except Exception:
        return None
    return out


def digest(x):
    import hashlib
    return hashlib.sha1(json.dumps(x, sort_keys=True, default=str).encode()).hexdigest()


def project_cache(L):
    """projection of the cache state: per loaded file and field a digest of its canonical serialisation (compared with the pristine digests)"""
    cf = cache_fields(L)
    if cf is None:
        return None
    try:
        return {f"{k[0]}:{k[1]}": {fld: digest(ser(v, L)) for fld, v in flds.items()} for k, flds in cf.items()}
    except Exception:
        return None


# ---------------------------------------------------------------------------------------------
# running one history (in a forked child with cold caches)
# ---------------------------------------------------------------------------------------------
def run_history(hist, L):
    """hist: list of [kind, a, b]. Returns per-step observations."""
    held = []          # [result object, serialisation at return time, mutated by the caller?]
    held_args = {}
    obs = []

    def stale():
        """held results the caller did NOT touch but whose value changed since they were returned"""
        return [i + 1 for i, h in enumerate(held) if not h[2] and h[0] is not None and ser(h[0], L) != h[1]]

    for step in hist:
        kind = step[0]
        if kind == "call":
            api, cfg = step[1], step[2]
            try:
                args = make_args(api, cfg, L, held_args)       # may itself call the library (the caller's long-lived fitter is built on first use)
            except Exception as e:
                held.append([None, None, False])
                obs.append({"step": step, "result": digest(None), "exc": type(e).__name__ + ": " + str(e)[:100], "args_unchanged": True, "cache": project_cache(L), "stale": stale(),
                            "ver": held_args.get("ver", 0)})
                continue
            before = ser(args, L)
            try:
                r = call_api(api, args, L)
                res = ser(r, L)
                exc = ""
            except Exception as e:
                r, res, exc = None, None, type(e).__name__ + ": " + str(e)[:100]
            held.append([r, res, False])
            obs.append({"step": step, "result": digest(res), "exc": exc, "args_unchanged": ser(args, L) == before, "cache": project_cache(L), "stale": stale(),
                        "ver": held_args.get("ver", 0)})
        elif kind == "mutate":
            h = int(step[1])
            if 1 <= h <= len(held):
                try:
                    # objects shared between several held results count as touched in all of them
                    before = [ser(x[0], L) for x in held]
                    mutate(held[h - 1][0], L)
                    held[h - 1][2] = True
                    for x, b in zip(held, before):
                        if ser(x[0], L) != b:
                            x[2] = True
                except Exception as e:
                    obs.append({"step": step, "exc": "mutate:" + type(e).__name__, "cache": project_cache(L)})
                    continue
            obs.append({"step": step, "exc": "", "cache": project_cache(L)})
        elif kind == "drop":
            if held:
                held.pop(0)
            obs.append({"step": step, "exc": "", "cache": project_cache(L)})
        elif kind == "editarg":
            held_args["ver"] = 1 - held_args.get("ver", 0)
            for key in [k for k in held_args if isinstance(k, tuple) and k[0] == "st"]:
                edit_args_inplace(held_args, key[1])
            obs.append({"step": step, "exc": "", "cache": project_cache(L), "ver": held_args["ver"]})
    return obs


def extract_aliases(apis, cfgs, L):
    """For each api: the cached fields that are mutably reachable from its result (after a cold call on each cfg)."""
    shares = {a: set() for a in apis}
    for cfg in cfgs:
        for api in apis:
            try:
                r = call_api(api, make_args(api, cfg, L), L)
            except Exception:
                continue
            rid = {i for i, o in mutable_ids(r, L).items() if _is_container(o)}
            for (kind, c), flds in (cache_fields(L) or {}).items():
                for fld, obj in flds.items():
                    if fld == "header":
                        continue
                    cid = {i for i, o in mutable_ids(obj, L).items() if _is_container(o)}
                    if rid & cid:
                        shares[api].add(fld)
    return {a: sorted(s) for a, s in shares.items()}


def _child(fn, payload):
    r, w = os.pipe()
    pid = os.fork()
    if pid == 0:
        try:
            os.close(r)
            try:
                out = {"ok": fn(payload)}
            except Exception:
                out = {"error": traceback.format_exc()[-800:]}
            with os.fdopen(w, "w") as fh:
                json.dump(out, fh)
        finally:
            os._exit(0)
    os.close(w)
    with os.fdopen(r) as fh:
        data = fh.read()
    os.waitpid(pid, 0)
    return json.loads(data) if data else {"error": "child died"}


def serve(jobs):
    """Executed in a spawned server process: imports the library (calls nothing), then forks one child per job so that every job
    starts from cold caches. job = ("history", hist) | ("aliases", apis, cfgs) | ("pristine", api, cfg) | ("pristine_cache", cfg)."""
    L = impl.lib()
    out = []
    for job in jobs:
        if job[0] == "history":
            out.append(_child(lambda h: run_history(h, L), job[1]))
        elif job[0] == "aliases":
            out.append(_child(lambda a: extract_aliases(a[0], a[1], L), (job[1], job[2])))
        elif job[0] == "pristine":
            out.append(_child(lambda a: run_history([["call", a[0], a[1]]], L)[0], (job[1], job[2])))
    return out
