"""Pristine reference for C13, computed in a fresh interpreter (run as a subprocess with its own PYTHONHASHSEED):
python -m hv.history_ref '<json: {"apis": [...], "cfgs": [...]}>'  -> JSON {api|cfg: {"result":..., "cache":...}} on stdout."""
import json
import sys

from . import history, impl


def main():
    spec = json.loads(sys.argv[1])
    L = impl.lib()
    out = {}
    for cfg in spec["cfgs"]:
        for api in spec["apis"]:
            r = history._child(lambda a: history.run_history([["call", a[0], a[1]]], L)[0], (api, cfg))
            out[f"{api}|{cfg}|0"] = r
            # the caller's objects in their edited version, edited BEFORE anything was called
            r = history._child(lambda a: history.run_history([["editarg", 0, ""], ["call", a[0], a[1]]], L)[1], (api, cfg))
            out[f"{api}|{cfg}|1"] = r
    json.dump(out, sys.stdout)


if __name__ == "__main__":
    main()
