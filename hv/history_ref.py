"""Pristine reference for C13, computed in a fresh interpreter (run as a subprocess with its own PYTHONHASHSEED):
python -m hv.history_ref '<json: {"apis": [...], "cfgs": [...]}>'  -> JSON {api|cfg: {"result":..., "cache":...}} on stdout."""
import json
import sys

from . import history, impl


def main():
    spec = json.loads(sys.argv[1])
    L = impl.lib()
    out = {}
    for cfg in spec["cfgs"]:
        for api in spec["apis"]:
            r = history._child(lambda a: history.run_history([["call", a[0], a[1]]], L)[0], (api, cfg))
            out[f"{api}|{cfg}"] = r
    json.dump(out, sys.stdout)


if __name__ == "__main__":
    main()
