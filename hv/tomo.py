"""Shared driver of the tomography checks (C10, C11, C12): scenarios -> real circuits -> exact statistics computed by the SPEC ->
real fitters -> values judged by the spec."""
from . import core, impl, par, workers
from .tlc import MachineryError


def run_scenarios(ck, jobs, files, rng, what):
    """jobs: list of scenario dicts {N, m, list, conn, comps, kind, meas, full, dm}. Returns list of (job, phase_b, tomo_verdict, fitter_verdicts)."""
    core.dbg(what, "scenarios", len(jobs))
    for k, job in enumerate(jobs):      # how the caller holds its arguments: a list, a tuple, or numpy arrays / objects that it goes on editing after the circuits are built
        job.setdefault("argform", ("list", "tuple", "edited")[k % 3])
        job.setdefault("countform", ("int", "float", "int", "np")[k % 4])       # how the statistics are handed over: shots, probabilities, numpy integers
    pa = par.pmap(workers.tomo_phase_a, jobs)
    mrecs, owner = [], []
    for ji, (job, a) in enumerate(zip(jobs, pa)):
        if a["exc"]:
            continue
        for i, comp_circs in enumerate(a["circuits"]):
            mrecs.append({"op": "measure", "N": job["N"], "circuits": comp_circs, "weights": [c[0] for c in job["comps"]]})
            owner.append((ji, i))
    v, st = core.validate_traces("TraceCalls", mrecs, files=files, what=what + " measure", heap="3g")
    ck.add_stats(f"TraceCalls(measure:{what})", st)
    counts = {}
    for (ji, i), (cl, out) in zip(owner, v):
        if cl or not out:
            raise MachineryError(f"measure op failed: {cl} {out}")
        counts.setdefault(ji, {})[i] = {"".join(k): int(c) for k, c in out}      # over the N qubits; workers.device_counts re-keys them by each circuit's own measurement layout
    jobs2 = []
    for ji, (job, a) in enumerate(zip(jobs, pa)):
        if a["exc"]:
            continue
        cs = [counts[ji][i] for i in range(len(a["circuits"]))]
        jobs2.append((ji, dict(job, counts=cs)))
    pb = par.pmap(workers.tomo_phase_b, [j for _, j in jobs2])
    core.dbg(what, "fitters done")
    trecs, frecs, fown = [], [], []
    for (ji, job), b in zip(jobs2, pb):
        if b["exc"]:
            continue
        lst = job["list"] if job["list"] is not None else list(range(job["N"]))
        base = {"op": "tomo", "N": job["N"], "m": job["m"], "list": lst, "kind": job["kind"],
                "meas": [c % impl.W2 for c in (job["meas"] or [])], "comps": job["comps"]}
        trecs.append(dict(base, full=1 if job["full"] else 0, values=b["values"]))
        # same fitter object, other full_hilbert_space flag, then the first flag again: three records per scenario
        trecs.append(dict(base, full=0 if job["full"] else 1, values=b["values_other"]))
        trecs.append(dict(base, full=1 if job["full"] else 0, values=b["values_again"]))
        for i, ents in enumerate(b["per_circuit"]):
            frecs.append({"op": "fitter", "N": job["N"], "m": job["m"], "list": lst, "full": 1 if job["full"] else 0,
                          "counts": [[list(k), c] for k, c in job["counts"][i].items()], "ro": b["ro"][i], "values": ents})
            fown.append(ji)
    tv, st = core.validate_traces("TraceCalls", trecs, files=files, what=what + " tomo", heap="3g")
    ck.add_stats(f"TraceCalls(tomo:{what})", st)
    fv, st = core.validate_traces("TraceCalls", frecs, files=files, what=what + " fitter", heap="3g")
    ck.add_stats(f"TraceCalls(fitter:{what})", st)
    results = []
    ti = 0
    fi = 0
    bi = 0
    for ji, (job, a) in enumerate(zip(jobs, pa)):
        if a["exc"]:
            results.append((job, {"exc": a["exc"]}, None, []))
            continue
        b = pb[bi]
        bi += 1
        if b["exc"]:
            results.append((job, b, None, []))
            continue
        tcl = tv[ti][0] | {"other-flag:" + c for c in tv[ti + 1][0]} | {"again:" + c for c in tv[ti + 2][0]}
        ti += 3
        fcl = []
        for _ in b["per_circuit"]:
            fcl.append(fv[fi][0])
            fi += 1
        results.append((job, b, tcl, fcl))
    return results
