"""setup_cmd: verify that the offline tool chain is usable (nothing to build: the harness is pure Python + TLA+)."""
import os
import subprocess
import sys


def main():
    ok = True
    for p in ["/opt/veriftools/tla/tla2tools.jar", "/opt/veriftools/tla/CommunityModules-deps.jar", "/venv/bin/python"]:
        if not os.path.exists(p):
            print("missing", p)
            ok = False
    r = subprocess.run(["java", "-version"], capture_output=True)
    ok = ok and r.returncode == 0
    os.makedirs(os.path.join(os.path.dirname(os.path.dirname(os.path.abspath(__file__))), "evidence"), exist_ok=True)
    print("setup ok" if ok else "setup FAILED")
    sys.exit(0 if ok else 1)


if __name__ == "__main__":
    main()
