"""Parallel driving of the implementation: a spawn-based process pool (each child imports the library afresh
from $VERIF_REPO/src; nothing is forked from a process that already initialised qiskit's thread pools)."""
import multiprocessing as mp
import os

from .core import NCPU


def _init():
    os.environ.setdefault("RAYON_NUM_THREADS", "1")
    os.environ.setdefault("OMP_NUM_THREADS", "1")
    os.environ.setdefault("OPENBLAS_NUM_THREADS", "1")


def pmap(fn, items, procs=None, chunksize=None):
    items = list(items)
    if not items:
        return []
    procs = min(procs or NCPU, max(1, len(items)))
    if procs == 1 or len(items) < 8:
        _init()
        return [fn(x) for x in items]
    chunksize = chunksize or max(1, len(items) // (procs * 8))
    ctx = mp.get_context("spawn")
    with ctx.Pool(procs, initializer=_init) as pool:
        return pool.map(fn, items, chunksize)
