"""Harness-side wrappers (no source hooks): active only when HTSTABILIZER_VERIF=1.
They replace module attributes of the imported library by logging wrappers; every call appends
(name, projected result | exception) to the current trace.  A missing attribute (refactored tree) is skipped:
the trace then simply lacks that internal event and the trace spec leaves the value unconstrained."""
import os

import numpy as np

LOG = []
_installed = False


def _wrap(mod, name, project):
    if not hasattr(mod, name):
        return False
    orig = getattr(mod, name)
    if getattr(orig, "_hv_wrapped", False):
        return True

    def wrapper(*a, **k):
        try:
            r = orig(*a, **k)
        except Exception as e:
            LOG.append((name, {"exc": type(e).__name__}))
            raise
        try:
            LOG.append((name, project(r)))
        except Exception:
            LOG.append((name, {"unprojectable": True}))
        return r
    wrapper._hv_wrapped = True
    wrapper._hv_orig = orig
    setattr(mod, name, wrapper)
    return True


def _layer(A):
    if A is None:
        return {"none": True}
    n = A[0].shape[0]
    offdiag = any(int(A[j][a, b]) for j in range(4) for a in range(n) for b in range(n) if a != b)
    return {"blocks": [[int(A[j][i, i]) & 1 for j in range(4)] for i in range(n)], "offdiag": bool(offdiag)}


def install(L):
    global _installed
    if _installed or os.environ.get("HTSTABILIZER_VERIF") != "1":
        return
    _installed = True
    _wrap(L.lc_classes, "determine_lc_class", lambda c: {"id": int(c.id())})
    _wrap(L.circuit_lookup, "stabilizer_circuit_lookup",
          lambda e: {"graph": int(e.graph_id), "cost": int(e.cost), "depth": int(e.depth)})
    # stabilizer_circuits imported the function by name
    _wrap(L.stabilizer_circuits, "find_local_clifford_layer", _layer)


def begin():
    del LOG[:]


def events():
    return list(LOG)
