"""Model-level TLC runs shared by several checks: state counts, dumps of states / transitions / behaviours
(the spec -> code direction gets its inputs from here)."""
from . import tlc, orbits
from .tlc import MachineryError

NUM_GROUPS = {1: 3, 2: 15, 3: 135, 4: 2295, 5: 75735, 6: 4922775}


def _names(s):
    return tlc.tla_set([tlc.tla_str(x) for x in s])


def clifford_cfg(n, conn="all", names1=("h", "s"), names2=("cx",), spec="Spec", view="GroupView", invariants=("TypeOK",)):
    return tlc.cfg(spec=spec, constants={"N": str(n), "Conn": tlc.tla_str(conn), "Names1": _names(names1),
                                          "Names2": _names(names2), "EmitAt": "0"},
                   invariants=invariants, view=view)


def check_gate_laws(ck, n=2):
    res = tlc.run_tlc("GateLaws", tlc.cfg(init="Init", next_="Next", constants={"N": str(n)}, invariants=["Laws"]), workers=1)
    tlc.require_ok(res, "GateLaws")
    if res.violated_invariant:
        raise MachineryError("gate laws violated in the specification itself: " + res.violated_invariant)
    ck.add_tlc(f"GateLaws(N={n})", res, note="all signed Paulis x all gates: identities, automorphism, inverse")


def clifford_states(ck, n, conn="all", signed=True, dump=False, invariants=("TypeOK", "Closed"), workers=8,
                    names1=("h", "s"), names2=("cx",)):
    """Exhaustive exploration of the tableau machine; checks the closed-form state count. Returns dumped states."""
    inv = list(invariants) + (["DumpState"] if dump else [])
    c = clifford_cfg(n, conn, names1, names2, view="GroupView" if signed else "SignFreeView", invariants=inv)
    res = tlc.run_tlc("MC_Clifford", c, workers=workers, heap="6g")
    tlc.require_ok(res, f"MC_Clifford n={n} {conn}")
    if res.violated_invariant:
        raise MachineryError(f"MC_Clifford n={n}: invariant {res.violated_invariant} violated (specification defect)")
    expect = NUM_GROUPS[n] * (2 ** n if signed else 1)
    if res.distinct != expect:
        raise MachineryError(f"MC_Clifford n={n} {conn}: {res.distinct} distinct states, closed form says {expect}")
    ck.add_tlc(f"MC_Clifford(N={n},{conn},{'signed' if signed else 'sign-free'})", res,
               note=f"distinct states = closed-form count {expect}")
    return [x for x in res.json_lines() if x.get("k") == "S"] if dump else []


def clifford_transitions(ck, n, names1, names2, conn="all"):
    """Complete labelled state graph of the machine with the given vocabulary (BFS, one worker)."""
    c = clifford_cfg(n, conn, names1, names2, spec="SpecDump", invariants=["DumpState"])
    res = tlc.run_tlc("MC_Clifford", c, workers=1, heap="6g")
    tlc.require_ok(res, f"MC_Clifford transitions n={n}")
    ck.add_tlc(f"MC_Clifford(N={n},{conn},full vocabulary, transition dump)", res)
    js = res.json_lines()
    return [x for x in js if x["k"] == "S"], [x for x in js if x["k"] == "T"]


def simulate_programs(ck, n, num, depth, seed, names1=("i", "x", "y", "z", "h", "s", "sdg"), names2=("cx", "cz", "swap"), conn="all"):
    """Random behaviours of the machine (TLC -simulate): returns list of {hist, tab}."""
    c = tlc.cfg(spec="Spec", constants={"N": str(n), "Conn": tlc.tla_str(conn), "Names1": _names(names1),
                                         "Names2": _names(names2), "EmitAt": str(depth)}, invariants=["EmitBehaviour"])
    res = tlc.run_tlc("MC_Clifford", c, workers=1, simulate=f"num={num}", depth=depth, seed=seed, heap="2g", timeout=1200)
    tlc.require_ok(res, f"simulate n={n}")
    out = [x for x in res.json_lines() if x.get("k") == "B"]
    ck.add_tlc(f"MC_Clifford(N={n}) -simulate num={num} depth<={depth}", states=sum(len(b['hist']) + 1 for b in out),
               transitions=sum(len(b['hist']) for b in out), note="random behaviours used as input programs")
    return out


def graph_orbits(ck, n, reps=None, dump=True, transitions=False, label="hint", faithful=False, workers=8):
    """Graph-level LC model from the given representatives. Returns (result, graph dump, transition dump)."""
    if reps is None:
        reps = orbits.orbit_reps(n)[0]
    inv = ["GKeyInv", "Involution", "Simple"] + (["Faithful"] if faithful else []) + (["GDump"] if dump else [])
    c = tlc.cfg(spec="GSpecDump" if transitions else "GSpec",
                constants={"N": str(n), "Reps": tlc.tla_set(map(str, reps))}, invariants=inv,
                properties=[] if transitions else ["GKeyPreserved"])
    res = tlc.run_tlc("LCOrbits", c, workers=1 if transitions else workers, heap="6g")
    js = res.json_lines() if (dump or transitions) else []
    return res, [x for x in js if x["k"] == "G"], [x for x in js if x["k"] == "L"]


def group_orbits(ck, n, reps=None, dump=True, workers=8):
    if reps is None:
        reps = orbits.orbit_reps(n)[0]
    inv = ["SKeyInv", "STypeOK"] + (["SDump"] if dump else [])
    c = tlc.cfg(spec="SSpec", constants={"N": str(n), "Reps": tlc.tla_set(map(str, reps))}, invariants=inv, view="SView")
    res = tlc.run_tlc("LCGroups", c, workers=workers, heap="12g", timeout=7200)
    js = res.json_lines() if dump else []
    return res, [x for x in js if x["k"] == "S"]


def pipeline_model(ck, L, configs):
    """Design-level model of the library's algorithm with the real tables (Pipeline.tla). Returns list of violated invariants."""
    from . import core
    files = {"Exported.tla": core.exported_module(L)}
    jobs = []
    for (n, conn) in configs:
        c = tlc.cfg(spec="Spec", constants={"N": str(n), "Conn": tlc.tla_str(conn)}, invariants=["Contract", "NoStuck", "CancelSound"], view="View")
        jobs.append((("Pipeline", c), dict(files=files, workers=5, heap="4g", timeout=3600)))
    bad = []
    for (n, conn), res in zip(configs, tlc.run_many(jobs, parallel=3)):
        tlc.require_ok(res, f"Pipeline {n}-{conn}")
        ck.add_tlc(f"Pipeline(N={n},{conn})", res, note="every signed state x every sound layer: Contract (state, coupling, cost, depth), NoStuck, CancelSound"
                   + (f"; VIOLATED: {res.violated_invariant}" if res.violated_invariant else ""))
        if res.violated_invariant:
            bad.append(f"{n}-{conn}:{res.violated_invariant}")
    return bad


def pipeline_faults_model(ck, L, configs, dump=True):
    """Design-level model of the library's algorithm for ARBITRARY requests (PipelineFaults.tla): every N-list of signed Paulis (N = 2) / every sorted list
    (N = 3) x both APIs x {requested connectivity, an unknown name} x every id the classifier may answer on junk x every sound layer.
    Returns (violated invariants, outcomes) where outcomes[(kind, tuple(target))] = set of terminal phases the design admits ("done" / "raised")."""
    from . import core
    files = {"Exported.tla": core.exported_module(L)}
    jobs = []
    for (n, conn, targets) in configs:
        invs = ["NoSilentWrong", "NoSpuriousRaise"] + (["DumpOutcome"] if dump and n == 2 else [])
        c = tlc.cfg(spec="Spec", constants={"N": str(n), "Conn": tlc.tla_str(conn), "Targets": "<- " + targets, "ReqConns": tlc.tla_set([tlc.tla_str(conn), tlc.tla_str("bogus")])},
                    invariants=invs, deadlock=True)
        jobs.append((("PipelineFaults", c), dict(files=files, workers=8 if n > 2 else 4, heap="6g", timeout=7200)))
    bad, outcomes = [], {}
    for (n, conn, targets), res in zip(configs, tlc.run_many(jobs, parallel=2)):
        tlc.require_ok(res, f"PipelineFaults {n}-{conn}")
        ck.add_tlc(f"PipelineFaults(N={n},{conn},{targets})", res, note="every operator list x both APIs x every classifier answer on junk x every sound layer: NoSilentWrong, NoSpuriousRaise, no deadlock"
                   + (f"; VIOLATED: {res.violated_invariant}" if res.violated_invariant else ""))
        if res.violated_invariant:
            bad.append(f"{n}-{conn}:{res.violated_invariant}")
        if n == 2 and dump:
            for x in res.json_lines():
                for k in (("prep", "readout") if x["k"] == "any" else (x["k"],)):     # raised before the two APIs diverge: an outcome of both
                    outcomes.setdefault((n, conn, k, tuple(x["t"])), set()).add(x["o"])
    return bad, outcomes
