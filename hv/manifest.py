"""Generates /verif/MANIFEST.json from the table below:  /venv/bin/python -m hv.manifest"""
import json
import os

VERIF = os.path.dirname(os.path.dirname(os.path.abspath(__file__)))

TLC_BASE = ("TLC 1.8 and the CommunityModules Java overrides; the TLA+ gate rules (validated inside TLC by GateLaws and the closed-form state counts); "
            "documented facts transcribed into the spec (coupling graphs, vocabulary, conventions, K); the projection functions of hv/impl.py")

CHECKS = {
 "C01": dict(cat="model_checking", tech="TLA+ tableau machine (CliffordMachine) + TLC: exhaustive state enumeration as inputs, batch trace validation of returned circuits",
   text="Inputs are the TLC-enumerated reachable states of the tableau machine (all signed states n<=3, all groups n=4 (quick) / all signed states n=4 (thorough), "
        "members of every LC class for n=5,6) in every input format on every connectivity; each returned circuit is validated as a behaviour of CliffordMachine whose final signed group must equal the request. "
        "Exhaustive for small n, class-complete but sampled in layers/signs for n=5,6. Design-level Pipeline.tla (real tables, every sound layer) model-checked for n=2,3. "
        "The harness acts as a caller with state: sign sweeps in one process, re-used Stabilizer objects, hostile mutation of every returned circuit, later modification of returned circuits detected.",
   note=TLC_BASE, ref="5 (C01), 4.4"),
 "C02": dict(cat="model_checking", tech="TLA+ trace validation: guard of CliffordMachine!GateStep = documented coupling graph; exhaustive over shipped circuits",
   text="The spec's two-qubit action is enabled only on pairs of the coupling graph transcribed from the documentation; every shipped table/MUB circuit (exhaustive), composed API outputs for every class x connectivity, "
        "measurement circuits on ordered qubit subsets and get_connectivity_graph are validated against it.",
   note=TLC_BASE, ref="5 (C02)"),
 "C03": dict(cat="model_checking", tech="TLA+ trace validation (readout traces start from the requested group; all 2^n elements must be Z-type; sign independence; spec-side inversion)",
   text="Same TLC-generated inputs as C01; the machine is loaded with the requested signed group and must end with every group element Z-type; the circuit for a second sign vector must be identical; the spec inverts the circuit itself.",
   note=TLC_BASE, ref="5 (C03)"),
 "C04": dict(cat="model_checking", tech="TLA+ trace validation with cost/depth bookkeeping in the machine; class determined by the spec (ClassIds)",
   text="Every class of every configuration (5962 pairs), several locally-equivalent presentations each, three APIs: machine bookkeeping (cost, ASAP two-qubit depth) must equal the lookup metadata of the class the SPEC assigns to the target; observed pairs single-valued per class. The table line of a class is found by class key (independent of class ids); "
        "the graph state of every table line is requested on its own connectivity as well; one Stabilizer / circuit object is passed through every connectivity and API in turn.",
   note=TLC_BASE, ref="5 (C04)"),
 "C05": dict(cat="model_checking", tech="TLC breadth-first search of the class-level quotient (Optimality.tla, VIEW = class key): BFS level = minimal two-qubit count over all competitor circuits",
   text="Universally quantified competitor circuits are decided by exhaustive BFS in the class-level model for all 20 coupling graphs; the actual cost of every table circuit is measured by the tableau machine; "
        "every non-minimal entry comes with a witness circuit validated by the spec and shown against the real classifier and API; the DELIVERED circuits (real API, table-line states and rotated members) are measured against the same minimum. "
        "570 genuine non-minimal six-qubit entries are known findings.",
   note=TLC_BASE + "; commutation / deferral argument in Optimality.tla; quick tier uses the 3-coset reduction (validated against the full 36 choices in the thorough tier)", ref="4.6, 5 (C05), 6"),
 "C06": dict(cat="model_checking", tech="TLC exhaustive orbit models (LCOrbits: all graphs n<=6; LCGroups: all stabilizer groups n<=5, n=6 thorough) + replay of every state into the classifier + trace validation",
   text="Classes are defined in the spec as connected components under local complementation / local H,S; TLC establishes K=2,5,18,93,760 and that the support-set key is complete; every graph (n<=6) and every group (n<=4 quick, n<=5 thorough) "
        "is replayed into determine_lc_class with re-mixed generators/signs/local layers and judged by TLC.",
   note=TLC_BASE + "; quick tier for n=6: every stabilizer state is LC-equivalent to a graph state (Van den Nest 2004), model-checked in the thorough tier", ref="4.5, 5 (C06)"),
 "C07": dict(cat="model_checking", tech="TLC-generated behaviours (complete transition graph for small n, -simulate for n<=6) replayed into compress_preparation_circuit; trace validation",
   text="Input programs are behaviours of the full-vocabulary tableau machine (every (state, gate) transition for n=2[,3]; random behaviours up to length 120/200 for n=2..6); the spec computes the program's state itself and validates the compressed circuit as a behaviour reaching it; one circuit object is compressed for every connectivity in turn; part of the circuits have their qubits in two quantum registers.",
   note=TLC_BASE + "; program length bounded", ref="5 (C07)"),
 "C09": dict(cat="model_checking", tech="TLA+ trace validation of all MUB circuits + declarative family judgement (partition of the Pauli group) evaluated by TLC",
   text="Exhaustive over the 20 configurations: all 744 (basis, circuit) pairs validated on the tableau machine (all 2^n elements Z-type, coupled); family-level: counts, valid bases, disjointness, completeness (4^n-1), info dictionary vs the spec's cost model, no worse than the library's readout; every family is requested a second time after the caller modified the first answer.",
   note=TLC_BASE, ref="5 (C09)"),
 "C17": dict(cat="model_checking", tech="TLA+ trace validation of every table line on the tableau machine (exhaustive)",
   text="Exhaustive: each of the 6722 lines (20 supported tables + stray file) is replayed on the tableau machine: graph state modulo signs, cost and depth columns, class of the graph = line index, vocabulary, indices, coupling, line count; two independent parses must agree; each line is parsed, edited by the caller and parsed again - the second answer is judged.",
   note=TLC_BASE, ref="5 (C17)"),
 "C18": dict(cat="model_checking", tech="TLC: executable Gauss-Jordan in TLA+ checked against the declarative meaning on all matrices <= 4x4; every matrix replayed into f2_algebra; call records judged by TLC",
   text="All 74954 matrices up to 4x4 (exhaustive) plus seeded strata up to 36x24: rref, pivots, rank, basis change and inverse, null space (annihilated, independent, n-rank, exact for n<=10, well-typed when empty), input unchanged; int8 / int32 / int64 / uint8 / boolean arrays.",
   note="TLC; uniqueness of RREF (model-checked up to 3x3); projection of numpy arrays to nested lists", ref="5 (C18)"),

 "C08": dict(cat="model_checking", tech="TLC builder model (all operator lists n=2; strata n<=6) replayed into the APIs; request/config records judged by TLC against ValidStabilizer and the documented configuration set; design-level TLC model of the pipeline for arbitrary requests (PipelineFaults) whose admitted outcomes are compared with the code's",
   text="Arbitrary operator lists (valid or not, both formats) and every (entry point, n in 1..8, name) pair: validate() = ValidStabilizer; a returned preparation circuit is for a valid stabilizer and is stabilised by all given operators; "
        "a returned readout diagonalises all given operators; entry points return iff the pair is one of the 20 advertised ones; the synthesis helper called directly with lists of any length and all flag combinations: a returned circuit's state is stabilised by every given operator.",
   note=TLC_BASE, ref="5 (C08)"),
 "C10": dict(cat="model_checking", tech="TLA+ measurement semantics + PullBack on the tableau machine; TLC computes exact statistics for the real circuits and judges the real fitters' output as exact rationals",
   text="Continuum reduced to discrete operator identities (linearity): the real fitter on arbitrary integer count dictionaries for every circuit of every configuration must report sigma*Parity under the key the spec obtains by pulling Z^s back through the readout circuit; "
        "end to end on TLC-generated stabilizer inputs and integer mixtures all 4^n values equal Tr(rho P).",
   note=TLC_BASE + "; linearity of the estimator in the counts; the final floating point sum is cross-checked numerically only", ref="5 (C10)"),
 "C11": dict(cat="model_checking", tech="TLA+ Marginal/Embed semantics; same spec<->code ping-pong as C10 on ordered qubit subsets; CircuitResult judged directly",
   text="Ordered lists of m qubits of N<=8 registers (asymmetric ones included), both fitters, both full_hilbert_space modes: every value = Tr(rho Embed(P,list)); CircuitResult(counts, qubits) against Marginal for all lists of all N<=4.",
   note=TLC_BASE + "; linearity (see C10)", ref="5 (C11)"),
 "C12": dict(cat="model_checking", tech="TLA+ measurement semantics; stabilizer-measurement scenarios judged by TLC",
   text="(input state, measured stabilizer presentation with arbitrary signs/generators, connectivity): exactly 2^n unsigned keys = the sign-free group, values = Tr(rho P); all signed states of n=2 (n=3 thorough) against their own group, class members n<=6.",
   note=TLC_BASE + "; linearity (see C10)", ref="5 (C12)"),
 "C13": dict(cat="model_checking", tech="TLA+ model of caches/aliases/mutations (CacheAlias.tla) with alias facts extracted from the running code; TLC decides Pure, dumps the state graph and random walks; every behaviour replayed in forked cold-cache children",
   text="TLC decides invariant Pure under the extracted alias relation (a counterexample is the shortest violating history, replayed against the real code); every labelled transition of the abstract state graph and long random histories are replayed with the projected state "
        "(loaded files, dirty cached fields, purity) compared after each step; results compared with a pristine reference from three fresh interpreters. "
        "The caller keeps its argument objects, results and a fitter for the whole history, edits its own arguments (EditArg), and any held, untouched result that changes later is reported.",
   note="TLC; generic mutation walker and canonical serialisation in hv/history.py; attribute rebinding on library objects is out of scope (property speaks of lists/circuits/dictionaries)", ref="5 (C13)"),
 "C14": dict(cat="model_checking", tech="denotations defined in TLA+ (FromChars, FromMatrices, GraphGens, tableau machine); denote records judged by TLC",
   text="All 1024 signed two-qubit lists, seeded lists n<=6, all 1080 three-qubit states, all graphs n<=5 (n=6 thorough), TLC behaviours as circuits: generator-for-generator equality, exact string round trip and mirror image, signed-group equality for circuits.",
   note=TLC_BASE, ref="5 (C14)"),
 "C15": dict(cat="model_checking", tech="predicates defined in TLA+ (span equality, expansion, weight-one elements); pred records judged by TLC",
   text="All ordered pairs of groups for n=2,3, all groups n=4, class members n=5,6, each with re-mixed generators and random signs: equivalence modulo signs, expansion lists each element once, entanglement of every qubit.",
   note=TLC_BASE, ref="5 (C15)"),
 "C16": dict(cat="model_checking", tech="layer existence decided in TLA+ by brute force over the 6^n layers (n<=4) / class keys (n=5,6); layer records judged by TLC; gate word replayed on the tableau machine",
   text="Every group of n<=4 against graphs of its own and other classes, partial/dependent operator sets, class members n=5,6: None only if no layer exists, exceptions never; returned layers block diagonal, invertible, sound; generated gate word realises the blocks.",
   note=TLC_BASE + "; n=5,6: existence iff class keys agree (LCGroups)", ref="5 (C16)"),
 "C19": dict(cat="model_checking", tech="TLC graph machine (all graphs n<=6; LC, toggle, swap) with every transition replayed into Graph; grouping codecs judged against set partitions in TLA+",
   text="Codec round trips at the documented bit positions, LC involution/faithfulness/class preservation as model invariants; all transitions n<=5 and all LC transitions n=6 replayed; all 13 grouping codecs bijective and block-order independent; class ids re-encode.",
   note=TLC_BASE, ref="5 (C19)"),
}

PENDING = {
}


def main():
    props = [json.loads(l) for l in open(os.path.join(VERIF, "properties.jsonl"))]
    checks = []
    for p in props:
        pid = p["id"]
        if pid not in CHECKS:
            continue
        c = CHECKS[pid]
        checks.append({
            "property_id": pid,
            "quick_cmd": f"bin/check {pid} --tier quick",
            "thorough_cmd": f"bin/check {pid} --tier thorough",
            "evidence_file": f"/verif/evidence/{pid}.json",
            "replay_cmd_template": f"bin/check {pid} --replay {{path}}",
            "engine": "tlc-trace-validation",
            "level_claimed": {"category": c["cat"], "text": c["text"], "design_ref": "DESIGN.md section " + c["ref"]},
            "level_note": c["note"],
            "technique": c["tech"],
        })
    na = [{"property_id": p["id"], "reason": PENDING.get(p["id"], "check not built yet (build in progress, see DESIGN.md section 11)")}
          for p in props if p["id"] not in CHECKS]
    m = {
        "version": 1,
        "setup_cmd": "cd /verif && /venv/bin/python -m hv.setup",
        "hooks": {"guard": "HTSTABILIZER_VERIF",
                  "enable": "HTSTABILIZER_VERIF=1 is set by bin/check; the hooks are harness-side wrappers (hv/wrap.py) installed on module attributes after import - no source change in /repo",
                  "baseline_off_cmd": "cd /repo && /venv/bin/python -m pytest -ra -q -p no:cacheprovider --timeout=900 --continue-on-collection-errors",
                  "source_commits": [], "add_only": True},
        "engines": [{"name": "tlc-trace-validation", "path": "/verif/spec", "serves_properties": sorted(CHECKS),
                     "kind_free_text": "explicit TLA+ specification (spec/*.tla) checked with TLC; bound to the code by replaying TLC-generated states/behaviours into the library and by validating recorded traces with TLC (hv/)"}],
        "checks": checks,
        "notes": "bin/check <id> --tier quick|thorough; exit 0 / 1 (VIOLATION lines) / 2 (machinery failure). known_findings.jsonl lists genuine defects recorded or fixed. VERIF_REPO overrides the repository location (mutant runs).",
        "not_applicable": na,
    }
    with open(os.path.join(VERIF, "MANIFEST.json"), "w") as fh:
        json.dump(m, fh, indent=1)
    print("MANIFEST.json written:", len(checks), "checks,", len(na), "not claimed")


if __name__ == "__main__":
    main()
