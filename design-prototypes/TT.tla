------------------------------ MODULE TT ------------------------------
EXTENDS Integers, Sequences, FiniteSets, Bitwise, TLC, Json, IOUtils
P2(k) == 2^k
Bit(m, q) == (m \div P2(q)) % 2
Traces == JsonDeserialize(IOEnv.TRACE_FILE)
NT == Len(Traces)
\* signed pauli: <<x,z,s>> encoded x + 64*z + 4096*s (fixed width 6)
W == 64
XM(p) == p % W
ZM(p) == (p \div W) % W
SG(p) == p \div (W*W)
Mk(x, z, s) == x + W*z + W*W*s
SetBit(m, q, b) == m - Bit(m,q)*P2(q) + b*P2(q)
GH(a, p) == LET x == XM(p) z == ZM(p) xa == Bit(x,a) za == Bit(z,a)
            IN Mk(SetBit(x,a,za), SetBit(z,a,xa), (SG(p) + xa*za) % 2)
GS(a, p) == LET x == XM(p) z == ZM(p) xa == Bit(x,a) za == Bit(z,a)
            IN Mk(x, SetBit(z,a,(za+xa)%2), (SG(p) + xa*za) % 2)
GSdg(a, p) == LET x == XM(p) z == ZM(p) xa == Bit(x,a) za == Bit(z,a)
            IN Mk(x, SetBit(z,a,(za+xa)%2), (SG(p) + xa*(1-za)) % 2)
GCX(c, t, p) == LET x == XM(p) z == ZM(p) xc == Bit(x,c) zc == Bit(z,c) xt == Bit(x,t) zt == Bit(z,t)
            IN Mk(SetBit(x,t,(xt+xc)%2), SetBit(z,c,(zc+zt)%2), (SG(p) + xc*zt*((xt+zc+1)%2)) % 2)
GCZ(a, b, p) == LET x == XM(p) z == ZM(p) xa == Bit(x,a) za == Bit(z,a) xb == Bit(x,b) zb == Bit(z,b)
            IN Mk(x, SetBit(SetBit(z,a,(za+xb)%2),b,(zb+xa)%2), (SG(p) + xa*xb*((za+zb)%2)) % 2)
GSW(a, b, p) == LET x == XM(p) z == ZM(p) xa == Bit(x,a) za == Bit(z,a) xb == Bit(x,b) zb == Bit(z,b)
            IN Mk(SetBit(SetBit(x,a,xb),b,xa), SetBit(SetBit(z,a,zb),b,za), SG(p))
Apply(g, p) == CASE g[1] = "h" -> GH(g[2], p)
                 [] g[1] = "s" -> GS(g[2], p)
                 [] g[1] = "sdg" -> GSdg(g[2], p)
                 [] g[1] = "cx" -> GCX(g[2], g[3], p)
                 [] g[1] = "cz" -> GCZ(g[2], g[3], p)
                 [] g[1] = "swap" -> GSW(g[2], g[3], p)
\* sign-free span of generator set
RECURSIVE SpanSeq(_,_,_)
SpanSeq(S, gs, i) == IF i > Len(gs) THEN S
                     ELSE LET g == gs[i] % (W*W) IN SpanSeq(S \cup {e ^^ g : e \in S}, gs, i+1)
GraphGens(n, gid) == LET idx(i,j) == i*n - (i*(i+1)) \div 2 + (j - i - 1)
                         adj(i) == LET RECURSIVE A(_,_)
                                       A(j, acc) == IF j = n THEN acc
                                                    ELSE A(j+1, IF j # i /\ Bit(gid, IF i < j THEN idx(i,j) ELSE idx(j,i)) = 1 THEN acc + P2(j) ELSE acc)
                                   IN A(0, 0)
                     IN [i \in 1..n |-> Mk(P2(i-1), adj(i-1), 0)]
Two(g) == g[3] >= 0
Wt(g) == IF g[1] = "swap" THEN 3 ELSE 1
VARIABLES tid, l, gens, cost, lvl
vars == <<tid, l, gens, cost, lvl>>
ZGens(n) == [i \in 1..n |-> Mk(0, P2(i-1), 0)]
Max(a,b) == IF a > b THEN a ELSE b
Init == tid = 1 /\ l = 1 /\ gens = ZGens(Traces[1].n) /\ cost = 0 /\ lvl = [q \in 0..5 |-> 0]
Step == /\ tid <= NT
        /\ LET T == Traces[tid] IN
           IF l <= Len(T.gates)
           THEN LET g == T.gates[l] IN
                /\ gens' = [i \in DOMAIN gens |-> Apply(g, gens[i])]
                /\ l' = l + 1
                /\ tid' = tid
                /\ IF Two(g) THEN /\ cost' = cost + Wt(g)
                                  /\ lvl' = LET L == Max(lvl[g[2]], lvl[g[3]]) + Wt(g) IN [lvl EXCEPT ![g[2]] = L, ![g[3]] = L]
                   ELSE UNCHANGED <<cost, lvl>>
           ELSE LET d == Max(Max(Max(lvl[0],lvl[1]),Max(lvl[2],lvl[3])),Max(lvl[4],lvl[5]))
                    ok == /\ SpanSeq({0}, gens, 1) = SpanSeq({0}, GraphGens(T.n, T.graph), 1)
                          /\ cost = T.cost /\ d = T.depth
                IN /\ (IF ok THEN TRUE ELSE PrintT(<<"REJECT", tid, cost, T.cost, d, T.depth, gens, GraphGens(T.n, T.graph)>>))
                   /\ tid' = tid + 1 /\ l' = 1 /\ cost' = 0 /\ lvl' = [q \in 0..5 |-> 0]
                   /\ gens' = IF tid + 1 <= NT THEN ZGens(Traces[tid+1].n) ELSE <<>>
Spec == Init /\ [][Step]_vars
Done == TLCGet("stats").diameter > 0
=============================================================================
