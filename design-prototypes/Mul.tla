------------------------------ MODULE Mul ------------------------------
EXTENDS Cliff
RECURSIVE Pop(_)
Pop(m) == IF m = 0 THEN 0 ELSE (m % 2) + Pop(m \div 2)
MulP(p, q) == LET x1 == XM(p) z1 == ZM(p) x2 == XM(q) z2 == ZM(q)
                  x3 == x1 ^^ x2  z3 == z1 ^^ z2
                  e == (Pop(x1 & z1) + Pop(x2 & z2) + 2*(SG(p) + SG(q) + Pop(z1 & x2)) + 4 - (Pop(x3 & z3) % 4)) % 4
              IN IF e % 2 = 1 THEN -1 ELSE Mk(x3, z3, e \div 2)
Closed == \A p \in grp, q \in grp : MulP(p, q) \in grp
Sym(p, q) == (Pop(XM(p) & ZM(q)) + Pop(ZM(p) & XM(q))) % 2
Commuting == \A p \in grp, q \in grp : Sym(p, q) = 0
=============================================================================
