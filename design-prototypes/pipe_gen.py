import sys, re
from htstabilizer import circuit_lookup
from htstabilizer.lc_classes import *
from htstabilizer.connectivity_support import get_connectivity_graph
n=int(sys.argv[1]); conn=sys.argv[2]
cls=[LCClass2,LCClass3,LCClass4,LCClass5,LCClass6][n-2]
rows=[]
for i in range(cls.count()):
    info=circuit_lookup.stabilizer_circuit_lookup(n,conn,i)
    qc=info.parse_circuit()
    gates=[(ins.operation.name,[qc.find_bit(q).index for q in ins.qubits]) for ins in qc.data]
    gs=",".join('<<"%s",%d,%d>>'%(nm,qs[0],qs[1] if len(qs)>1 else -1) for nm,qs in gates)
    rows.append('[graph |-> %d, cost |-> %d, depth |-> %d, gates |-> <<%s>>]'%(info.graph_id,info.cost,info.depth,gs))
edges=",".join("{%d,%d}"%e for e in get_connectivity_graph(n,conn).get_edges())
open("MCPipe.tla","w").write("""---- MODULE MCPipe ----
EXTENDS Pipe
TableDef == <<%s>>
EdgesDef == {%s}
====
"""%(",\n".join(rows),edges))
open("MCPipe.cfg","w").write("""CONSTANT N = %d
CONSTANT Table <- TableDef
CONSTANT Edges <- EdgesDef
SPECIFICATION Spec
INVARIANT Contract
INVARIANT NoStuck
CHECK_DEADLOCK FALSE
"""%n)
