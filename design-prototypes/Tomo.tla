------------------------------ MODULE Tomo ------------------------------
EXTENDS Mul
Outcomes == {b \in 0..(P2(N)-1) : \A p \in grp : XM(p) = 0 => Pop(ZM(p) & b) % 2 = SG(p)}
RECURSIVE SumS(_,_)
SumS(S, s) == IF S = {} THEN 0 ELSE LET b == CHOOSE x \in S : TRUE IN (IF Pop(s & b) % 2 = 1 THEN -1 ELSE 1) + SumS(S \ {b}, s)
ExpZ(s) == IF Mk(0, s, 0) \in grp THEN 1 ELSE IF Mk(0, s, 1) \in grp THEN -1 ELSE 0
MeasureOK == \A s \in 1..(P2(N)-1) : SumS(Outcomes, s) = ExpZ(s) * Cardinality(Outcomes)
NonEmpty == Outcomes # {}
=============================================================================
