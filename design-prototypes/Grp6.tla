------------------------------ MODULE Grp6 ------------------------------
EXTENDS Integers, FiniteSets, Bitwise, TLC
CONSTANTS N, Reps
Q == 0..(N-1)
P2(k) == 2^k
Bit(m, q) == (m \div P2(q)) % 2
XM(p) == p % P2(N)
ZM(p) == p \div P2(N)
Mk(x, z) == x + P2(N)*z
SetBit(m, q, b) == m - Bit(m,q)*P2(q) + b*P2(q)
H(a, p) == LET x == XM(p) z == ZM(p) IN Mk(SetBit(x,a,Bit(z,a)), SetBit(z,a,Bit(x,a)))
S(a, p) == LET x == XM(p) z == ZM(p) IN Mk(x, SetBit(z,a,(Bit(z,a)+Bit(x,a))%2))
Supp(p) == XM(p) | ZM(p)
Idx(i, j) == i*N - (i*(i+1)) \div 2 + (j - i - 1)
Edge(g, i, j) == IF i = j THEN 0 ELSE IF i < j THEN Bit(g, Idx(i,j)) ELSE Bit(g, Idx(j,i))
RECURSIVE RowR(_,_,_,_)
RowR(g, v, u, acc) == IF u = N THEN acc ELSE RowR(g, v, u+1, acc + Edge(g,v,u)*P2(u))
Row(g, v) == RowR(g, v, 0, 0)
RECURSIVE Span(_,_,_)
Span(SS, g, v) == IF v = N THEN SS ELSE LET e0 == Mk(P2(v), Row(g, v)) IN Span(SS \cup {e ^^ e0 : e \in SS}, g, v+1)
Key(G) == {Supp(p) : p \in G}
VARIABLES grp, key
Init == \E g \in Reps : grp = Span({0}, g, 0) /\ key = g
Next == \/ \E a \in Q : grp' = {H(a,p) : p \in grp} /\ key' = key
        \/ \E a \in Q : grp' = {S(a,p) : p \in grp} /\ key' = key
Spec == Init /\ [][Next]_<<grp,key>>
=============================================================================
