import itertools, sys, time, glob, os, re
sys.path.insert(0,"/tmp")
from exp2 import edges, span, graph_gens, D
from collections import Counter, deque
def hist(grp):
    return frozenset(Counter(x|z for x,z in grp).items())
# local symplectic classes on qubit a applied to (x,z): 6 maps
def loc(c,a,x,z):
    xa=(x>>a)&1; za=(z>>a)&1
    m=[(xa,za),(za,xa),(xa,xa^za),(xa^za,xa),(za,xa^za),(xa^za,za)][c]
    x=(x&~(1<<a))|(m[0]<<a); z=(z&~(1<<a))|(m[1]<<a); return x,z
def cz(a,b,x,z):
    xa=(x>>a)&1; xb=(x>>b)&1
    return x, z^(xb<<a)^(xa<<b)
def bfs(n,E):
    start=frozenset(span([(0,1<<i) for i in range(n)]))
    dist={hist(start):0}; rep={hist(start):start}
    q=deque([start])
    while q:
        g=q.popleft(); d=dist[hist(g)]
        for e in E:
            a,b=tuple(e)
            for ca in range(6):
                for cb in range(6):
                    g2=frozenset(cz(a,b,*loc(cb,b,*loc(ca,a,x,z))) for x,z in g)
                    h=hist(g2)
                    if h not in dist:
                        dist[h]=d+1; q.append(g2)
    return dist
tot=0
if __name__!="__main__": raise SystemExit
for f in sorted(glob.glob(D+"stabilizer*.txt")):
    m=re.match(r"stabilizer(\d)-(\w+)\.txt",os.path.basename(f)); n=int(m.group(1)); c=m.group(2)
    if len(sys.argv)>1 and n>int(sys.argv[1]): continue
    t=time.time()
    dist=bfs(n,edges(n,c))
    nonopt=0; hs=set()
    for k,line in enumerate(l for l in open(f).read().split("\n") if l):
        gid,cost,depth,cs=line.split(":")
        h=hist(span(graph_gens(n,int(gid)))); hs.add(h)
        if dist[h]!=int(cost):
            nonopt+=1
            if nonopt<4: print("  NONOPT",os.path.basename(f),k,"table",cost,"bfs",dist[h])
    print(os.path.basename(f),"classes",len(dist),"distinct table hists",len(hs),"nonopt",nonopt,"%.1fs"%(time.time()-t))
