import numpy as np, itertools
from qiskit import QuantumCircuit
from qiskit.quantum_info import Statevector, Pauli, random_statevector, DensityMatrix, partial_trace
from htstabilizer.tomography import *
from htstabilizer.stabilizer import Stabilizer
class FakeResult:
    def __init__(self, counts): self._c=counts
    def get_counts(self): return self._c
def exact_counts(qc, scale=None):
    # remove measurements, compute probabilities
    qc2=qc.remove_final_measurements(inplace=False)
    sv=Statevector(qc2); p=sv.probabilities()
    n=qc2.num_qubits
    return {format(i,"0%db"%n): float(p[i]) for i in range(2**n) if p[i]>1e-15}
def prep_random(n, seed):
    qc=QuantumCircuit(n)
    sv=random_statevector(2**n, seed=seed)
    qc.initialize(sv.data, range(n))  # may not be composable... use unitary gates instead
    return qc
def rand_circ(n,seed):
    rng=np.random.default_rng(seed)
    qc=QuantumCircuit(n)
    for layer in range(3):
        for q in range(n):
            qc.u(*rng.uniform(0,2*np.pi,3), q)
        for q in range(n-1):
            qc.cx(q,q+1)
    for q in range(n): qc.u(*rng.uniform(0,2*np.pi,3), q)
    return qc
# full tomography, all qubits
for n,conn in [(2,"all"),(3,"linear"),(4,"star")]:
    qc=rand_circ(n,1)
    circs=full_state_tomography_circuits(qc, conn)
    counts=[exact_counts(c) for c in circs]
    f=FullStateTomographyFitter(FakeResult(counts), circs)
    rho=f.density_matrix()
    ref=DensityMatrix(qc).data
    print(n,conn,"full tomography maxerr", np.abs(rho-ref).max(), "nkeys", len(f.expectation_values()))
# subset
N=3
qc=rand_circ(N,2)
for sub in [[0,2],[0,1],[1,2],[2,0],[1,0],[2,1]]:
    circs=full_state_tomography_circuits(qc, "all", measured_qubits=sub)
    counts=[exact_counts(c) for c in circs]
    f=FullStateTomographyFitter(FakeResult(counts), circs)
    rho=f.density_matrix(full_hilbert_space=False)
    # reduced state on sub in given order: qiskit little-endian: partial_trace over others gives qubits sorted ascending
    dm=DensityMatrix(qc)
    others=[q for q in range(N) if q not in sub]
    red=partial_trace(dm, others)  # remaining qubits ascending order
    asc=sorted(sub)
    if sub!=asc:
        # permute
        from qiskit.quantum_info import Operator
        perm=[asc.index(q) for q in sub]  # new qubit i = old qubit perm[i]
        qcp=QuantumCircuit(2); 
        if perm==[1,0]: qcp.swap(0,1)
        red=red.evolve(qcp)
    print("subset",sub,"maxerr",np.abs(rho-red.data).max())
# stabilizer measurement
qc=rand_circ(3,3)
st=Stabilizer(["-XZI","ZXZ","-IZX"])
mc=stabilizer_measurement_circuit(qc, st, "linear")
f=StabilizerMeasurementFitter(FakeResult(exact_counts(mc)), mc)
ev=f.expectation_values()
sv=Statevector(qc)
err=max(abs(v - sv.expectation_value(p).real) for p,v in ev.items())
print("stab meas nkeys",len(ev),"maxerr",err, [ (str(p),round(v,3)) for p,v in list(ev.items())[:3]])
