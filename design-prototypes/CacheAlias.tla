------------------------------ MODULE CacheAlias ------------------------------
EXTENDS Integers, Sequences, FiniteSets, TLC
CONSTANTS Cfgs, MaxHeld, SharesMubs
Apis == {"prep", "readout", "compress", "mub_circuits", "mubs", "mub_info", "fst", "smc", "conn_graph"}
FileOf(api, c) == IF api \in {"prep","readout","compress","smc"} THEN <<"stab", c>>
                  ELSE IF api \in {"mub_circuits","mubs","mub_info","fst"} THEN <<"mub", c>> ELSE <<"none", c>>
Reads(api) == CASE api \in {"prep","readout","compress","smc"} -> {"infos"}
                [] api \in {"mub_circuits","fst"} -> {"circuits"}
                [] api = "mubs" -> {"mubs"}
                [] api = "mub_info" -> {"header"}
                [] OTHER -> {}
\* which cached fields are mutably reachable from the result (extracted from the running code)
Shares(api) == IF api = "mubs" /\ SharesMubs THEN {"mubs"} ELSE {}
VARIABLES loaded, dirty, held, lastPure, ncalls
vars == <<loaded, dirty, held, lastPure, ncalls>>
Init == loaded = {} /\ dirty = {} /\ held = <<>> /\ lastPure = TRUE /\ ncalls = 0
Call(api, c) == /\ Len(held) < MaxHeld
                /\ LET f == FileOf(api, c) IN
                   /\ loaded' = IF f[1] = "none" THEN loaded ELSE loaded \cup {f}
                   /\ lastPure' = ({<<f, fld>> : fld \in Reads(api)} \cap dirty = {})
                   /\ held' = Append(held, [api |-> api, file |-> f, shares |-> Shares(api)])
                /\ ncalls' = ncalls + 1 /\ UNCHANGED dirty
Mutate(h) == /\ h \in DOMAIN held
             /\ dirty' = dirty \cup {<<held[h].file, fld>> : fld \in held[h].shares}
             /\ UNCHANGED <<loaded, held, lastPure, ncalls>>
Drop == /\ held # <<>> /\ held' = Tail(held) /\ UNCHANGED <<loaded, dirty, lastPure, ncalls>>
Next == (\E api \in Apis, c \in Cfgs : Call(api, c)) \/ (\E h \in 1..MaxHeld : Mutate(h)) \/ Drop
Spec == Init /\ [][Next]_vars
Pure == lastPure
View == <<loaded, dirty, held, lastPure>>
=============================================================================
