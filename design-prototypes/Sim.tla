------------------------------ MODULE Sim ------------------------------
EXTENDS Integers, Sequences, FiniteSets, Bitwise, TLC, Json
CONSTANTS N, D
P2(k) == 2^k
Bit(m, q) == (m \div P2(q)) % 2
W == 64
XM(p) == p % W
ZM(p) == (p \div W) % W
SG(p) == p \div (W*W)
Mk(x, z, s) == x + W*z + W*W*s
SetBit(m, q, b) == m - Bit(m,q)*P2(q) + b*P2(q)
GH(a, p) == LET x == XM(p) z == ZM(p) xa == Bit(x,a) za == Bit(z,a)
            IN Mk(SetBit(x,a,za), SetBit(z,a,xa), (SG(p) + xa*za) % 2)
GS(a, p) == LET x == XM(p) z == ZM(p) xa == Bit(x,a) za == Bit(z,a)
            IN Mk(x, SetBit(z,a,(za+xa)%2), (SG(p) + xa*za) % 2)
GCX(c, t, p) == LET x == XM(p) z == ZM(p) xc == Bit(x,c) zc == Bit(z,c) xt == Bit(x,t) zt == Bit(z,t)
            IN Mk(SetBit(x,t,(xt+xc)%2), SetBit(z,c,(zc+zt)%2), (SG(p) + xc*zt*((xt+zc+1)%2)) % 2)
VARIABLES gens, hist, done
Q == 0..(N-1)
Init == gens = [i \in 1..N |-> Mk(0, P2(i-1), 0)] /\ hist = <<>> /\ done = FALSE
Do(g, f(_)) == /\ ~done /\ Len(hist) < D /\ gens' = [i \in 1..N |-> f(gens[i])] /\ hist' = Append(hist, g) /\ done' = FALSE
Next == \/ \E a \in Q : Do(<<"h", a, -1>>, LAMBDA p : GH(a, p))
        \/ \E a \in Q : Do(<<"s", a, -1>>, LAMBDA p : GS(a, p))
        \/ \E c \in Q, t \in Q : c # t /\ Do(<<"cx", c, t>>, LAMBDA p : GCX(c, t, p))
        \/ (~done /\ Len(hist) > 0 /\ done' = TRUE /\ UNCHANGED <<gens, hist>>)
Spec == Init /\ [][Next]_<<gens, hist, done>>
Emit == done => PrintT(ToJson([gates |-> hist, gens |-> gens]))
=============================================================================
