import sys, io, contextlib, glob, os, re, json
sys.path.insert(0,"/tmp")
with contextlib.redirect_stdout(io.StringIO()):
    from exp2 import parse, D
out=[]
for f in sorted(glob.glob(D+"stabilizer*.txt")):
    m=re.match(r"stabilizer(\d)-(\w+)\.txt",os.path.basename(f)); n=int(m.group(1)); c=m.group(2)
    for k,line in enumerate(l for l in open(f).read().split("\n") if l):
        gid,cost,depth,cs=line.split(":")
        out.append({"n":n,"conn":c,"id":k,"graph":int(gid),"cost":int(cost),"depth":int(depth),
                    "gates":[[g[0],g[1],-1 if g[2] is None else g[2]] for g in parse(cs)]})
json.dump(out,open("/tmp/tlaexp/traces.json","w"))
print(len(out), sum(len(t["gates"]) for t in out))
