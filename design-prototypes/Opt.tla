------------------------------ MODULE Opt ------------------------------
EXTENDS Integers, FiniteSets, Bitwise, TLC
CONSTANTS N, Edges
Q == 0..(N-1)
P2(k) == 2^k
Bit(m, q) == (m \div P2(q)) % 2
XM(p) == p % P2(N)
ZM(p) == p \div P2(N)
Mk(x, z) == x + P2(N)*z
SetBit(m, q, b) == m - Bit(m,q)*P2(q) + b*P2(q)
\* six local symplectic classes on qubit a
Loc(c, a, p) == LET x == XM(p) z == ZM(p) xa == Bit(x,a) za == Bit(z,a) w == (xa+za)%2
                IN CASE c = 0 -> p
                     [] c = 1 -> Mk(SetBit(x,a,za), SetBit(z,a,xa))
                     [] c = 2 -> Mk(x, SetBit(z,a,w))
                     [] c = 3 -> Mk(SetBit(x,a,w), SetBit(z,a,xa))
                     [] c = 4 -> Mk(SetBit(x,a,za), SetBit(z,a,w))
                     [] c = 5 -> Mk(SetBit(x,a,w), z)
CZ(a, b, p) == LET x == XM(p) z == ZM(p) IN Mk(x, (z ^^ (Bit(x,b)*P2(a))) ^^ (Bit(x,a)*P2(b)))
Supp(p) == XM(p) | ZM(p)
Hist(g) == LET ss == {Supp(p) : p \in g} IN {<<m, Cardinality({p \in g : Supp(p) = m})>> : m \in ss}
VARIABLE grp
ZeroGroup == {Mk(0, z) : z \in 0..(P2(N)-1)}
Init == grp = ZeroGroup
Next == \E e \in Edges, ca \in 0..5, cb \in 0..5 :
           grp' = {CZ(e[1], e[2], Loc(cb, e[2], Loc(ca, e[1], p))) : p \in grp}
Spec == Init /\ [][Next]_grp
View == {Supp(p) : p \in grp}
TypeOK == Cardinality(grp) = P2(N)
=============================================================================
