# prototype: table checks: connectivity, cost, depth, graph state (mod sign) - independent parser
import glob, os, re, itertools, sys
D="/repo/src/htstabilizer/data/"
def edges(n,c):
    if c in("all","allx"): return {frozenset(p) for p in itertools.combinations(range(n),2)}
    lin={frozenset((i,i+1)) for i in range(n-1)}
    if c=="linear": return lin
    if c=="star": return {frozenset((0,i)) for i in range(1,n)}
    if c=="cycle": return lin|{frozenset((0,n-1))}
    if c=="T": return {frozenset(p) for p in [(4,3),(3,0),(0,1),(0,2)]}
    if c=="Q": return lin|{frozenset((n-1,n-4))}
    if c=="ladder": return lin|{frozenset((0,5)),frozenset((1,4))}
    if c=="E": return {frozenset(p) for p in [(3,0),(0,1),(1,2),(2,5),(1,4)]}
    if c=="H": return {frozenset(p) for p in [(0,1),(1,2),(3,4),(4,5),(1,4)]}
def parse(s):
    out=[]
    for tok in s.split():
        m=re.fullmatch(r"(h|s|sdg|cx|cz|swap)(\d+)(?:,(\d+))?",tok)
        assert m, tok
        out.append((m.group(1),int(m.group(2)),None if m.group(3) is None else int(m.group(3))))
    return out
def conj(g,n,gens):
    # gens: list of (x,z) masks sign-free
    name,a,b=g
    res=[]
    for x,z in gens:
        xa=(x>>a)&1; za=(z>>a)&1
        if name=="h":
            x=(x&~(1<<a))|(za<<a); z=(z&~(1<<a))|(xa<<a)
        elif name in("s","sdg"):
            z^= (xa<<a)
        elif name=="cx":
            # control a target b
            xb=(x>>b)&1; zb=(z>>b)&1
            x^= (xa<<b); z^=(zb<<a)
        elif name=="cz":
            xb=(x>>b)&1
            z^=(xb<<a); z^=(xa<<b)
        elif name=="swap":
            xb=(x>>b)&1; zb=(z>>b)&1
            x=(x&~((1<<a)|(1<<b)))|(xb<<a)|(xa<<b)
            z=(z&~((1<<a)|(1<<b)))|(zb<<a)|(za<<b)
        res.append((x,z))
    return res
def span(gens):
    s={(0,0)}
    for g in gens:
        s|={(x^g[0],z^g[1]) for x,z in s}
    return frozenset(s)
def graph_gens(n,gid):
    adj=[0]*n; idx=0
    for i in range(n-1):
        for j in range(i+1,n):
            if gid>>idx&1: adj[i]|=1<<j; adj[j]|=1<<i
            idx+=1
    return [(1<<i,adj[i]) for i in range(n)]
bad=0
for f in sorted(glob.glob(D+"stabilizer*.txt")):
    m=re.match(r"stabilizer(\d)-(\w+)\.txt",os.path.basename(f)); n=int(m.group(1)); c=m.group(2)
    E=edges(n,c)
    maxc=0;maxd=0
    for k,line in enumerate(l for l in open(f).read().split("\n") if l):
        gid,cost,depth,cs=line.split(":"); gid=int(gid);cost=int(cost);depth=int(depth)
        gates=parse(cs)
        gens=[(0,1<<i) for i in range(n)]
        cc=0; lvl=[0]*n
        for g in gates:
            if g[2] is not None:
                if frozenset((g[1],g[2])) not in E: print("CONN",f,k,g); bad+=1
                w=3 if g[0]=="swap" else 1
                cc+=w
                l=max(lvl[g[1]],lvl[g[2]])+w
                lvl[g[1]]=lvl[g[2]]=l
            gens=conj(g,n,gens)
        if cc!=cost: print("COST",f,k,cc,cost); bad+=1
        if max(lvl)!=depth: print("DEPTH",f,k,max(lvl),depth,cs); bad+=1
        if span(gens)!=span(graph_gens(n,gid)): print("STATE",f,k); bad+=1
        maxc=max(maxc,cost);maxd=max(maxd,depth)
    print(os.path.basename(f),"maxcost",maxc,"maxdepth",maxd)
print("bad",bad)
