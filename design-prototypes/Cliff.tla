------------------------------ MODULE Cliff ------------------------------
EXTENDS Integers, FiniteSets, Bitwise, TLC
CONSTANTS N
Q == 0..(N-1)
P2(k) == 2^k
Bit(m, q) == (m \div P2(q)) % 2
XM(p) == p % P2(N)
ZM(p) == (p \div P2(N)) % P2(N)
SG(p) == p \div P2(2*N)
Mk(x, z, s) == x + P2(N)*z + P2(2*N)*s
\* gate conjugations on one signed Pauli
GH(a, p) == LET x == XM(p) z == ZM(p) xa == Bit(x,a) za == Bit(z,a)
            IN Mk(x - xa*P2(a) + za*P2(a), z - za*P2(a) + xa*P2(a), (SG(p) + xa*za) % 2)
GS(a, p) == LET x == XM(p) z == ZM(p) xa == Bit(x,a) za == Bit(z,a)
            IN Mk(x, z - za*P2(a) + ((za+xa)%2)*P2(a), (SG(p) + xa*za) % 2)
GCX(c, t, p) == LET x == XM(p) z == ZM(p) xc == Bit(x,c) zc == Bit(z,c) xt == Bit(x,t) zt == Bit(z,t)
            IN Mk(x - xt*P2(t) + ((xt+xc)%2)*P2(t), z - zc*P2(c) + ((zc+zt)%2)*P2(c), (SG(p) + xc*zt*((xt+zc+1)%2)) % 2)
VARIABLE grp
Init == grp = LET RECURSIVE Sp(_,_)
                  Sp(S, q) == IF q = N THEN S ELSE Sp(S \cup {Mk(0, (ZM(e) ^^ P2(q)), 0) : e \in S}, q+1)
              IN Sp({0}, 0)
Next == \/ \E a \in Q : grp' = {GH(a,p) : p \in grp}
        \/ \E a \in Q : grp' = {GS(a,p) : p \in grp}
        \/ \E c \in Q, t \in Q : c # t /\ grp' = {GCX(c,t,p) : p \in grp}
Spec == Init /\ [][Next]_grp
TypeOK == Cardinality(grp) = P2(N) /\ 0 \in grp /\ P2(2*N) \notin grp
=============================================================================
