------------------------------ MODULE F2 ------------------------------
EXTENDS Integers, Sequences, FiniteSets, Bitwise, TLC
P2(k) == 2^k
Bit(m, q) == (m \div P2(q)) % 2
\* matrix = sequence of rows; row = integer, column c (0-based, left to right) is bit c
\* executable Gauss-Jordan: Rref(rows, ncols)
RECURSIVE Elim(_,_,_,_)
Elim(rows, h, k, n) ==
   IF h > Len(rows) \/ k >= n THEN rows
   ELSE LET cand == {i \in h..Len(rows) : Bit(rows[i], k) = 1} IN
        IF cand = {} THEN Elim(rows, h, k+1, n)
        ELSE LET i == CHOOSE j \in cand : \A j2 \in cand : j <= j2
                 sw == [rows EXCEPT ![h] = rows[i], ![i] = rows[h]]
                 cl == [j \in 1..Len(sw) |-> IF j # h /\ Bit(sw[j], k) = 1 THEN sw[j] ^^ sw[h] ELSE sw[j]]
             IN Elim(cl, h+1, k+1, n)
Rref(rows, n) == Elim(rows, 1, 0, n)
RECURSIVE SpanR(_,_,_)
SpanR(S, rows, i) == IF i > Len(rows) THEN S ELSE SpanR(S \cup {e ^^ rows[i] : e \in S}, rows, i+1)
RowSpace(rows) == SpanR({0}, rows, 1)
Lead(r, n) == IF r = 0 THEN n ELSE CHOOSE c \in 0..(n-1) : Bit(r, c) = 1 /\ \A c2 \in 0..(c-1) : Bit(r, c2) = 0
IsRREF(rows, n) == /\ \A i \in 1..(Len(rows)-1) : (rows[i] = 0 => rows[i+1] = 0) /\ (rows[i+1] # 0 => Lead(rows[i], n) < Lead(rows[i+1], n))
                   /\ \A i \in 1..Len(rows) : rows[i] # 0 => \A j \in 1..Len(rows) : j # i => Bit(rows[j], Lead(rows[i], n)) = 0
CONSTANTS M, NC
VARIABLE A
Init == A \in [1..M -> 0..(P2(NC)-1)]
Next == UNCHANGED A
Spec == Init /\ [][Next]_A
RrefOK == LET R == Rref(A, NC) IN IsRREF(R, NC) /\ RowSpace(R) = RowSpace(A)
=============================================================================
