------------------------------ MODULE Pipe ------------------------------
EXTENDS Integers, Sequences, FiniteSets, Bitwise, TLC
CONSTANTS N, Table, Edges
Q == 0..(N-1)
P2(k) == 2^k
Bit(m, q) == (m \div P2(q)) % 2
W == 64
XM(p) == p % W
ZM(p) == (p \div W) % W
SG(p) == p \div (W*W)
Mk(x, z, s) == x + W*z + W*W*s
Unsigned(p) == p % (W*W)
Neg(p) == Mk(XM(p), ZM(p), 1 - SG(p))
SetBit(m, q, b) == m - Bit(m,q)*P2(q) + b*P2(q)
RECURSIVE Pop(_)
Pop(m) == IF m = 0 THEN 0 ELSE (m % 2) + Pop(m \div 2)
GH(a, p) == LET x == XM(p) z == ZM(p) xa == Bit(x,a) za == Bit(z,a)
            IN Mk(SetBit(x,a,za), SetBit(z,a,xa), (SG(p) + xa*za) % 2)
GS(a, p) == LET x == XM(p) z == ZM(p) xa == Bit(x,a) za == Bit(z,a)
            IN Mk(x, SetBit(z,a,(za+xa)%2), (SG(p) + xa*za) % 2)
GSdg(a, p) == LET x == XM(p) z == ZM(p) xa == Bit(x,a) za == Bit(z,a)
            IN Mk(x, SetBit(z,a,(za+xa)%2), (SG(p) + xa*(1-za)) % 2)
GX(a, p) == Mk(XM(p), ZM(p), (SG(p) + Bit(ZM(p),a)) % 2)
GCX(c, t, p) == LET x == XM(p) z == ZM(p) xc == Bit(x,c) zc == Bit(z,c) xt == Bit(x,t) zt == Bit(z,t)
            IN Mk(SetBit(x,t,(xt+xc)%2), SetBit(z,c,(zc+zt)%2), (SG(p) + xc*zt*((xt+zc+1)%2)) % 2)
GCZ(a, b, p) == LET x == XM(p) z == ZM(p) xa == Bit(x,a) za == Bit(z,a) xb == Bit(x,b) zb == Bit(z,b)
            IN Mk(x, SetBit(SetBit(z,a,(za+xb)%2),b,(zb+xa)%2), (SG(p) + xa*xb*((za+zb)%2)) % 2)
GSW(a, b, p) == LET x == XM(p) z == ZM(p) xa == Bit(x,a) za == Bit(z,a) xb == Bit(x,b) zb == Bit(z,b)
            IN Mk(SetBit(SetBit(x,a,xb),b,xa), SetBit(SetBit(z,a,zb),b,za), SG(p))
Apply(g, p) == CASE g[1] = "h" -> GH(g[2], p) [] g[1] = "s" -> GS(g[2], p) [] g[1] = "sdg" -> GSdg(g[2], p)
                 [] g[1] = "x" -> GX(g[2], p)
                 [] g[1] = "cx" -> GCX(g[2], g[3], p) [] g[1] = "cz" -> GCZ(g[2], g[3], p) [] g[1] = "swap" -> GSW(g[2], g[3], p)
RECURSIVE Run(_,_,_)
Run(gs, i, ps) == IF i > Len(gs) THEN ps ELSE Run(gs, i+1, [k \in DOMAIN ps |-> Apply(gs[i], ps[k])])
ZGens == [i \in 1..N |-> Mk(0, P2(i-1), 0)]
MulP(p, q) == LET x3 == XM(p) ^^ XM(q) z3 == ZM(p) ^^ ZM(q)
                  e == (Pop(XM(p) & ZM(p)) + Pop(XM(q) & ZM(q)) + 2*(SG(p) + SG(q) + Pop(ZM(p) & XM(q))) + 4 - (Pop(x3 & z3) % 4)) % 4
              IN Mk(x3, z3, e \div 2)
RECURSIVE SSpan(_,_,_)
SSpan(S, gs, i) == IF i > Len(gs) THEN S ELSE SSpan(S \cup {MulP(e, gs[i]) : e \in S}, gs, i+1)
SignedSpan(gs) == SSpan({0}, gs, 1)
USpan(gs) == {Unsigned(p) : p \in SignedSpan(gs)}
Supp(p) == XM(p) | ZM(p)
ClassKey(G) == {Supp(p) : p \in G}
Idx(i, j) == i*N - (i*(i+1)) \div 2 + (j - i - 1)
Edge(g, i, j) == IF i = j THEN 0 ELSE IF i < j THEN Bit(g, Idx(i,j)) ELSE Bit(g, Idx(j,i))
RECURSIVE RowR(_,_,_,_)
RowR(g, v, u, acc) == IF u = N THEN acc ELSE RowR(g, v, u+1, acc + Edge(g,v,u)*P2(u))
GraphGens(g) == [i \in 1..N |-> Mk(P2(i-1), RowR(g, i-1, 0, 0), 0)]
GraphGroupU(g) == USpan(GraphGens(g))
IdOf(key) == CHOOSE i \in 1..Len(Table) : ClassKey(GraphGroupU(Table[i].graph)) = key
\* local classes (sign-free)
Loc(c, a, p) == LET x == XM(p) z == ZM(p) xa == Bit(x,a) za == Bit(z,a) w == (xa+za)%2
                IN CASE c = 0 -> Mk(x, z, 0)
                     [] c = 1 -> Mk(SetBit(x,a,za), SetBit(z,a,xa), 0)
                     [] c = 2 -> Mk(x, SetBit(z,a,w), 0)
                     [] c = 3 -> Mk(SetBit(x,a,w), SetBit(z,a,xa), 0)
                     [] c = 4 -> Mk(SetBit(x,a,za), SetBit(z,a,w), 0)
                     [] c = 5 -> Mk(SetBit(x,a,w), z, 0)
RECURSIVE ApplyLayer(_,_,_)
ApplyLayer(L, q, p) == IF q = N THEN p ELSE ApplyLayer(L, q+1, Loc(L[q], q, p))
Sound(L, ps, g) == \A k \in DOMAIN ps : ApplyLayer(L, 0, Unsigned(ps[k])) \in GraphGroupU(g)
\* inverse of the layer circuit (library word reversed, s -> sdg)
InvWord(c, q) == CASE c = 0 -> <<>> [] c = 1 -> << <<"h",q,-1>> >> [] c = 2 -> << <<"sdg",q,-1>> >>
                   [] c = 3 -> << <<"h",q,-1>>, <<"sdg",q,-1>> >>
                   [] c = 4 -> << <<"sdg",q,-1>>, <<"h",q,-1>> >>
                   [] c = 5 -> << <<"h",q,-1>>, <<"sdg",q,-1>>, <<"h",q,-1>> >>
RECURSIVE InvLayerGates(_,_)
InvLayerGates(L, q) == IF q = N THEN <<>> ELSE InvWord(L[q], q) \o InvLayerGates(L, q+1)
TwoQ(gs) == {i \in DOMAIN gs : gs[i][3] >= 0}
Cost(gs) == LET RECURSIVE C(_) C(i) == IF i > Len(gs) THEN 0 ELSE (IF gs[i][3] >= 0 THEN (IF gs[i][1] = "swap" THEN 3 ELSE 1) ELSE 0) + C(i+1) IN C(1)

VARIABLES phase, gens, target, id, layer, circ, final
vars == <<phase, gens, target, id, layer, circ, final>>
Init == phase = "build" /\ gens = ZGens /\ target = <<>> /\ id = 0 /\ layer = <<>> /\ circ = <<>> /\ final = <<>>
Build == /\ phase = "build"
         /\ \/ \E a \in Q : gens' = [k \in 1..N |-> GH(a, gens[k])]
            \/ \E a \in Q : gens' = [k \in 1..N |-> GS(a, gens[k])]
            \/ \E a \in Q, b \in Q : a # b /\ gens' = [k \in 1..N |-> GCX(a, b, gens[k])]
         /\ UNCHANGED <<phase, target, id, layer, circ, final>>
Request == /\ phase = "build" /\ phase' = "classify" /\ target' = gens
           /\ UNCHANGED <<gens, id, layer, circ, final>>
Classify == /\ phase = "classify" /\ id' = IdOf(ClassKey(USpan(target))) /\ phase' = "layer"
            /\ UNCHANGED <<gens, target, layer, circ, final>>
FindLayer == /\ phase = "layer"
             /\ \E L \in [Q -> 0..5] : Sound(L, target, Table[id].graph) /\ layer' = L
             /\ phase' = "compose" /\ UNCHANGED <<gens, target, id, circ, final>>
Compose == /\ phase = "compose" /\ circ' = Table[id].gates \o InvLayerGates(layer, 0) /\ phase' = "fix"
           /\ UNCHANGED <<gens, target, id, layer, final>>
SignFix == /\ phase = "fix"
           /\ LET tg == Run(circ, 1, ZGens)             \* tableau generators U Z_i U^+
                  T == SignedSpan(target)
                  flips == {i \in 1..N : Neg(tg[i]) \in T}
                  xs == [i \in 1..N |-> IF i \in flips THEN << <<"x", i-1, -1>> >> ELSE <<>>]
                  pre == LET RECURSIVE Cat(_) Cat(i) == IF i > N THEN <<>> ELSE xs[i] \o Cat(i+1) IN Cat(1)
              IN /\ \A i \in 1..N : tg[i] \in T \/ Neg(tg[i]) \in T
                 /\ final' = pre \o circ
           /\ phase' = "done" /\ UNCHANGED <<gens, target, id, layer, circ>>
Next == Build \/ Request \/ Classify \/ FindLayer \/ Compose \/ SignFix
Spec == Init /\ [][Next]_vars
Contract == phase = "done" =>
              /\ SignedSpan(Run(final, 1, ZGens)) = SignedSpan(target)
              /\ \A i \in TwoQ(final) : {final[i][2], final[i][3]} \in Edges
              /\ Cost(final) = Table[id].cost
NoStuck == /\ (phase = "layer" => \E L \in [Q -> 0..5] : Sound(L, target, Table[id].graph))
           /\ (phase = "fix" => LET tg == Run(circ, 1, ZGens) T == SignedSpan(target) IN \A i \in 1..N : tg[i] \in T \/ Neg(tg[i]) \in T)
View == <<phase, IF phase = "build" THEN SignedSpan(gens) ELSE {}, target, id, layer, circ, final>>
=============================================================================
