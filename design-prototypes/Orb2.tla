------------------------------ MODULE Orb2 ------------------------------
EXTENDS Integers, FiniteSets, Bitwise, TLC
CONSTANTS N, Reps
Q == 0..(N-1)
P2(k) == 2^k
Bit(m, q) == (m \div P2(q)) % 2
Mk(x, z) == x + P2(N)*z
XM(p) == p % P2(N)
ZM(p) == p \div P2(N)
Supp(p) == XM(p) | ZM(p)
Idx(i, j) == i*N - (i*(i+1)) \div 2 + (j - i - 1)
Edge(g, i, j) == IF i = j THEN 0 ELSE IF i < j THEN Bit(g, Idx(i,j)) ELSE Bit(g, Idx(j,i))
RECURSIVE RowR(_,_,_,_)
RowR(g, v, u, acc) == IF u = N THEN acc ELSE RowR(g, v, u+1, acc + Edge(g,v,u)*P2(u))
Row(g, v) == RowR(g, v, 0, 0)
RECURSIVE Span(_,_,_)
Span(S, g, v) == IF v = N THEN S ELSE LET e0 == Mk(P2(v), Row(g, v)) IN Span(S \cup {e ^^ e0 : e \in S}, g, v+1)
Key(g) == {Supp(p) : p \in Span({0}, g, 0)}
\* local complementation: toggle every pair inside N(v)
Pairs == {<<i,j>> \in Q \X Q : i < j}
RECURSIVE Tog(_,_,_)
LC(g, v) == LET nb == Row(g, v)
                tg == {pr \in Pairs : Bit(nb, pr[1]) = 1 /\ Bit(nb, pr[2]) = 1}
                mask == LET RECURSIVE Sum(_)
                            Sum(S) == IF S = {} THEN 0 ELSE LET pr == CHOOSE x \in S : TRUE IN P2(Idx(pr[1],pr[2])) + Sum(S \ {pr})
                        IN Sum(tg)
            IN g ^^ mask
Tog(g, i, j) == g
VARIABLE gid
Init == gid \in Reps
Next == \E v \in Q : gid' = LC(gid, v)
Spec == Init /\ [][Next]_gid
KeyPreserved == [][Key(gid') = Key(gid)]_gid
Involution == \A v \in Q : LC(LC(gid, v), v) = gid
=============================================================================
